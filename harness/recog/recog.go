// Package recog is an independent recursive-descent recogniser of the shell
// grammar (XCU 2.10.2 plus go.sh's "(( ))" command as an opaque token), working
// on token sequences, not characters.  It answers for the FIRST complete command
// of the input (go.sh parses one per call): valid, invalid, incomplete (the input
// ends inside a construct) or unsure (constructs it deliberately does not judge).
package recog

import "unicode"

type Kind int

const (
	Word Kind = iota // any word; Text decides reserved-word / assignment / name readings
	Op               // operator; Text is the operator
	Newline
	IONum // digits glued to a following redirection operator
	Arith // a whole (( ... )) command
	// SubOpen is "$(" and BQ a backquote, each rendered as a token of its own: a
	// word may be "$(" compound_list ")" or BQ compound_list BQ
	SubOpen
	BQ
)

type Tok struct {
	K    Kind
	Text string
	// Plain: the word consists of literal, unquoted characters only (only plain
	// words can be reserved words, names or assignment words)
	Plain bool
}

type Verdict int

const (
	Valid Verdict = iota
	Invalid
	Incomplete
	Unsure
)

func (v Verdict) String() string {
	return [...]string{"valid", "invalid", "incomplete", "unsure"}[v]
}

type fail struct{ v Verdict }

type rec struct {
	t   []Tok
	i   int
	ctx []byte // open constructs, innermost last: '(' subshell, '$' "$(", '`' backquote
}

func (r *rec) inBQ() bool {
	for _, c := range r.ctx {
		if c == '`' {
			return true
		}
	}
	return false
}

// isWord: a word starts here.  A backquote directly inside a backquote
// substitution is its closer; one deeper inside is not judged.
func (r *rec) isWord() bool {
	t := r.peek()
	switch t.K {
	case Word, SubOpen:
		return true
	case BQ:
		if !r.inBQ() {
			return true
		}
		// the backquoted text ends at the first backquote: inside an embedded "$("
		// the result is undefined (XCU 2.6.3), inside a subshell the text ends with
		// the subshell still open
		for k := len(r.ctx) - 1; r.ctx[k] != '`'; k-- {
			if r.ctx[k] == '$' {
				panic(fail{Unsure})
			}
		}
		if r.ctx[len(r.ctx)-1] != '`' {
			r.bad()
		}
	}
	return false
}

func (r *rec) isBQ() bool { return r.peek().K == BQ }

// word consumes one word; the caller has checked isWord.
func (r *rec) word() {
	t := r.peek()
	r.i++
	switch t.K {
	case SubOpen:
		r.ctx = append(r.ctx, '$')
		r.compoundList(func() bool { return r.isOp(")") })
		r.expectOp(")")
		r.ctx = r.ctx[:len(r.ctx)-1]
	case BQ:
		r.ctx = append(r.ctx, '`')
		r.compoundList(r.isBQ)
		r.need()
		if !r.isBQ() {
			r.bad()
		}
		r.i++
		r.ctx = r.ctx[:len(r.ctx)-1]
	}
}

var reserved = map[string]bool{"!": true, "{": true, "}": true, "for": true, "case": true, "esac": true, "in": true, "if": true, "elif": true, "then": true, "else": true, "fi": true, "while": true, "until": true, "do": true, "done": true}

var spBuiltin = map[string]bool{"break": true, ":": true, "continue": true, ".": true, "eval": true, "exec": true, "exit": true, "export": true, "readonly": true, "return": true, "set": true, "shift": true, "times": true, "trap": true, "unset": true}

func isName(s string) bool {
	if s == "" {
		return false
	}
	for i, r := range s {
		if !(r == '_' || unicode.IsLetter(r) || (i > 0 && unicode.IsDigit(r))) {
			return false
		}
	}
	return true
}

func isAssign(t Tok) bool {
	if t.K != Word {
		return false
	}
	for i, r := range t.Text {
		if r == '=' {
			return i > 0 && isName(t.Text[:i])
		}
		if !(r == '_' || unicode.IsLetter(r) || unicode.IsDigit(r)) {
			return false
		}
	}
	return false
}

func isRedirOp(s string) bool {
	switch s {
	case "<", ">", ">|", ">>", "<&", ">&", "<>", "<<", "<<-":
		return true
	}
	return false
}

func (r *rec) eof() bool { return r.i >= len(r.t) }
func (r *rec) peek() Tok {
	if r.eof() {
		return Tok{K: -1}
	}
	return r.t[r.i]
}
func (r *rec) isOp(s string) bool { t := r.peek(); return t.K == Op && t.Text == s }

// isRes: the current token is the reserved word s (only meaningful where the
// caller is at a position in which reserved words are recognised).
func (r *rec) isRes(s string) bool {
	t := r.peek()
	return t.K == Word && t.Plain && t.Text == s
}
func (r *rec) anyRes() bool { t := r.peek(); return t.K == Word && t.Plain && reserved[t.Text] }

func (r *rec) bad() { panic(fail{Invalid}) }
func (r *rec) need() {
	if r.eof() {
		panic(fail{Incomplete})
	}
}

func (r *rec) linebreak() {
	for r.peek().K == Newline {
		r.i++
	}
}

func (r *rec) expectRes(s string) {
	r.need()
	if !r.isRes(s) {
		r.bad()
	}
	r.i++
}

func (r *rec) expectOp(s string) {
	r.need()
	if !r.isOp(s) {
		r.bad()
	}
	r.i++
}

// redirect parses an optional redirection; reports whether one was consumed.
func (r *rec) redirect() bool {
	t := r.peek()
	j := r.i
	if t.K == IONum {
		j++
		if j >= len(r.t) {
			panic(fail{Incomplete})
		}
		if !(r.t[j].K == Op && isRedirOp(r.t[j].Text)) {
			r.bad()
		}
	} else if !(t.K == Op && isRedirOp(t.Text)) {
		return false
	}
	if r.t[j].Text == "<<" || r.t[j].Text == "<<-" {
		panic(fail{Unsure}) // here-document bodies are not modelled
	}
	j++
	if j >= len(r.t) {
		panic(fail{Incomplete})
	}
	r.i = j
	if !r.isWord() {
		r.bad()
	}
	r.word()
	return true
}

// command parses one command; the caller guarantees a token is present.
func (r *rec) command() {
	t := r.peek()
	switch {
	case t.K == Arith:
		r.i++
		r.redirects(true)
		return
	case t.K == Op && t.Text == "(":
		r.i++
		r.ctx = append(r.ctx, '(')
		r.compoundList(func() bool { return r.isOp(")") })
		r.expectOp(")")
		r.ctx = r.ctx[:len(r.ctx)-1]
		r.redirects(true)
		return
	case t.K == Word && t.Plain && reserved[t.Text]:
		switch t.Text {
		case "{":
			r.i++
			r.compoundList(func() bool { return r.isRes("}") })
			r.expectRes("}")
		case "if":
			r.i++
			r.compoundList(func() bool { return r.isRes("then") })
			r.expectRes("then")
			r.compoundList(func() bool { return r.isRes("elif") || r.isRes("else") || r.isRes("fi") })
			for r.isRes("elif") {
				r.i++
				r.compoundList(func() bool { return r.isRes("then") })
				r.expectRes("then")
				r.compoundList(func() bool { return r.isRes("elif") || r.isRes("else") || r.isRes("fi") })
			}
			if r.isRes("else") {
				r.i++
				r.compoundList(func() bool { return r.isRes("fi") })
			}
			r.expectRes("fi")
		case "while", "until":
			r.i++
			r.compoundList(func() bool { return r.isRes("do") })
			r.doGroup()
		case "for":
			r.i++
			r.need()
			n := r.peek()
			if n.K != Word || !n.Plain || !isName(n.Text) {
				r.bad()
			}
			r.i++
			r.need()
			switch {
			case r.isRes("do"):
			case r.isOp(";"):
				r.i++
				r.linebreak()
			default:
				had := r.peek().K == Newline
				r.linebreak()
				r.need()
				if r.isRes("in") {
					r.i++
					for r.isWord() {
						r.word()
					}
					r.need()
					switch {
					case r.isOp(";"):
						r.i++
						r.linebreak()
					case r.peek().K == Newline:
						r.linebreak()
					default:
						r.bad()
					}
				} else if !had {
					r.bad()
				}
			}
			r.doGroup()
		case "case":
			r.i++
			r.need()
			if !r.isWord() {
				r.bad()
			}
			r.word()
			r.linebreak()
			r.expectRes("in")
			r.linebreak()
			for {
				r.need()
				if r.isRes("esac") {
					break
				}
				if r.isOp("(") {
					r.i++
					r.need()
				}
				if !r.isWord() {
					r.bad()
				}
				r.word()
				for r.isOp("|") {
					r.i++
					r.need()
					if !r.isWord() {
						r.bad()
					}
					r.word()
				}
				r.expectOp(")")
				r.linebreak()
				r.need()
				if !r.isOp(";;") && !r.isRes("esac") {
					r.compoundListBody(func() bool { return r.isOp(";;") || r.isRes("esac") })
				}
				r.need()
				if r.isOp(";;") {
					r.i++
					r.linebreak()
					continue
				}
			}
			r.expectRes("esac")
		default:
			r.bad() // a reserved word that cannot start a command
		}
		r.redirects(true)
		return
	}
	// simple command or function definition
	if t.K == Word && t.Plain && isName(t.Text) && r.i+1 < len(r.t) && r.t[r.i+1].K == Op && r.t[r.i+1].Text == "(" {
		if spBuiltin[t.Text] {
			r.bad()
		}
		r.i += 2
		r.expectOp(")")
		r.linebreak()
		r.need()
		// function body: a compound command
		b := r.peek()
		if !(b.K == Arith || (b.K == Op && b.Text == "(") || (b.K == Word && b.Plain && (b.Text == "{" || b.Text == "if" || b.Text == "while" || b.Text == "until" || b.Text == "for" || b.Text == "case"))) {
			r.bad()
		}
		r.command()
		return
	}
	n := 0
	// prefix
	for {
		if r.redirect() {
			n++
			continue
		}
		if isAssign(r.peek()) && r.peek().Plain {
			r.i++
			n++
			continue
		}
		break
	}
	if r.isWord() {
		r.word()
		n++
		for {
			if r.redirect() {
				continue
			}
			if r.isWord() {
				r.word()
				continue
			}
			break
		}
	}
	if n == 0 {
		if r.eof() {
			panic(fail{Incomplete})
		}
		r.bad()
	}
}

func (r *rec) doGroup() {
	r.expectRes("do")
	r.compoundList(func() bool { return r.isRes("done") })
	r.expectRes("done")
}

// redirects after a compound command.
func (r *rec) redirects(compound bool) {
	n := 0
	for r.redirect() {
		n++
	}
	if n > 0 && compound && r.isWord() {
		// after a redirection the next word is not in a position where reserved
		// words are recognised (bash and dash agree): a plain word follows a
		// compound command, which nothing derives
		r.bad()
	}
}

func (r *rec) pipeline() {
	r.need()
	if r.isRes("!") {
		r.i++
		r.need()
	}
	r.command()
	for r.isOp("|") {
		r.i++
		r.linebreak()
		r.need()
		r.command()
	}
}

func (r *rec) andOr() {
	r.pipeline()
	for r.isOp("&&") || r.isOp("||") {
		r.i++
		r.linebreak()
		r.pipeline()
	}
}

// compoundList := linebreak term [separator]; ends where end() holds at a
// command position.
func (r *rec) compoundList(end func() bool) {
	r.linebreak()
	r.compoundListBody(end)
}

func (r *rec) compoundListBody(end func() bool) {
	r.need()
	if end() {
		r.bad() // empty compound list
	}
	for {
		r.andOr()
		// separator
		switch {
		case r.isOp(";") || r.isOp("&"):
			r.i++
			r.linebreak()
		case r.peek().K == Newline:
			r.linebreak()
		default:
			// no separator: only the end of the list may follow
			r.need()
			if !end() {
				r.bad()
			}
			return
		}
		r.need()
		if end() {
			return
		}
	}
}

// Recognise judges the first complete command of the token sequence.
func Recognise(toks []Tok) (v Verdict, consumed int) {
	r := &rec{t: toks}
	defer func() {
		if e := recover(); e != nil {
			f, ok := e.(fail)
			if !ok {
				panic(e)
			}
			v, consumed = f.v, r.i
		}
	}()
	if r.eof() || r.peek().K == Newline {
		return Valid, min(1, len(toks)) // empty command
	}
	for {
		r.andOr()
		if r.isOp(";") || r.isOp("&") {
			r.i++
			if r.eof() || r.peek().K == Newline {
				break
			}
			continue
		}
		break
	}
	if r.eof() {
		return Valid, r.i
	}
	if r.peek().K == Newline {
		return Valid, r.i + 1
	}
	return Invalid, r.i
}
