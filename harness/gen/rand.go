package gen

import (
	"math/rand/v2"
	"strings"
)

// Options steer the random generator.
type Options struct {
	Budget   int  // approximate number of nodes
	Heredocs bool // allow here-documents
	MaxHD    int
	Flat     bool // single-line forms only (no NL inside compound lists)
	NoNested bool // no command substitutions
	HDBias   bool // prefer here-documents among redirections
	InParen  bool // the program will be placed inside ( ) / $( ): no (( )) command
	LeadHD   bool // start the complete command with `cmd <<E ;` so that a here-document is pending on the whole first line
}

type G struct {
	R       *rand.Rand
	O       Options
	budget  int
	nhd     int
	inWord  int  // depth of word nesting (heredocs only at depth <= 1)
	sawCase bool // a case clause with items was generated
	paren   int  // parenthesis depth
	// coverage of (parent production, slot, child production)
	Pairs map[string]int
}

func New(r *rand.Rand, o Options) *G {
	if o.Budget == 0 {
		o.Budget = 12
	}
	if o.MaxHD == 0 {
		o.MaxHD = 3
	}
	g := &G{R: r, O: o, budget: o.Budget, Pairs: map[string]int{}}
	if o.InParen {
		g.paren = 1
	}
	return g
}

func (g *G) n(k int) int             { return g.R.IntN(k) }
func (g *G) p(num, den int) bool     { return g.R.IntN(den) < num }
func pickS(g *G, xs []string) string { return xs[g.R.IntN(len(xs))] }

var cmdNames = []string{"echo", "ls", "cat", "foo", "a1", "x.y", "/bin/ls", "a-b", "é", "日本", "true", "grep", "_f", "cmd2", "~/x"}
var argWords = []string{"a", "b", "-l", "--x", "f.txt", "/tmp/x", "1", "22", "日本語", "é", "a:b", "x,y", "%d", "@", "+1", "if", "then", "fi", "do", "done", "for", "in", "case", "esac", "while", "until", "else", "elif", "~", "a=b", "{a}"}
var varNames = []string{"x", "y", "v1", "_z", "PATH", "é", "名"}
var funcNames = []string{"f", "g1", "my_fn", "fn2"}
var specials = []string{"@", "*", "#", "?", "-", "$", "!", "0", "1", "2", "9"}
var paramOps = []string{":-", "-", ":=", "=", ":?", "?", ":+", "+", "%", "%%", "#", "##"}
var redirOps = []string{"<", ">", ">|", ">>", "<&", ">&", "<>"}
var litChars = []rune("abcxyzABZ019_./:+,%@-é日")

func (g *G) litText(n int) string {
	var b strings.Builder
	for i := 0; i < n; i++ {
		b.WriteRune(litChars[g.n(len(litChars))])
	}
	return b.String()
}

// Program generates one complete command.
func (g *G) Program() *Program {
	cl := &CList{Top: true}
	n := 1
	if g.p(1, 3) {
		n += g.n(3)
	}
	for i := 0; i < n; i++ {
		ao := g.andor("top")
		if i < n-1 {
			ao.Sep = pickS(g, []string{";", ";", "&"})
		} else if g.p(1, 4) {
			ao.Sep = pickS(g, []string{";", "&"})
		}
		cl.Items = append(cl.Items, ao)
	}
	if g.O.LeadHD {
		g.nhd++
		lead := &Cmd{K: "simple", Name: LW(pickS(g, []string{"cat", "lead"}))}
		r := &Redir{HD: g.heredoc()}
		r.Op = "<<"
		if r.HD.Dash {
			r.Op = "<<-"
		}
		r.W = r.HD.Delim
		lead.Post = []Item{{R: r}}
		switch g.n(4) {
		case 0:
			first := cl.Items[0]
			first.First.Cmds = append([]*Cmd{lead}, first.First.Cmds...) // lead | first…
			if first.First.Bang {
				first.First.Bang = false
			}
			first.First.NLs = append([]bool{g.p(1, 2)}, first.First.NLs...)
		case 1:
			first := cl.Items[0]
			first.Rest = append([]AOItem{{Op: pickS(g, []string{"&&", "||"}), NL: g.p(1, 2), P: first.First}}, first.Rest...)
			first.First = Pipe(lead)
		default:
			cl.Items = append([]*AndOr{{First: Pipe(lead), Sep: pickS(g, []string{";", ";", "&"})}}, cl.Items...)
		}
	}
	return &Program{List: cl}
}

func (g *G) pair(parent, child string) { g.Pairs[parent+">"+child]++ }

func (g *G) andor(parent string) *AndOr {
	ao := &AndOr{First: g.pipeline(parent)}
	for g.budget > 0 && g.p(1, 5) && len(ao.Rest) < 3 {
		ao.Rest = append(ao.Rest, AOItem{Op: pickS(g, []string{"&&", "||"}), NL: !g.O.Flat && g.p(1, 4), P: g.pipeline("andor")})
	}
	return ao
}

func (g *G) pipeline(parent string) *Pipeline {
	p := &Pipeline{Bang: g.p(1, 10)}
	p.Cmds = append(p.Cmds, g.cmd(parent))
	for g.budget > 0 && g.p(1, 6) && len(p.Cmds) < 3 {
		p.NLs = append(p.NLs, !g.O.Flat && g.p(1, 4))
		p.Cmds = append(p.Cmds, g.cmd("pipe"))
	}
	return p
}

func (g *G) cmd(parent string) *Cmd {
	g.budget--
	var c *Cmd
	if g.budget <= 0 || g.p(11, 20) {
		c = g.simple()
	} else {
		c = g.compound()
	}
	g.pair(parent, c.K)
	return c
}

func (g *G) simple() *Cmd {
	c := &Cmd{K: "simple"}
	for (g.p(1, 5) || (g.O.HDBias && g.p(1, 4))) && len(c.Pre) < 3 {
		if g.p(1, 2) && !g.O.HDBias {
			c.Pre = append(c.Pre, Item{A: &Assign{Name: pickS(g, varNames), W: g.word(true)}})
		} else {
			c.Pre = append(c.Pre, Item{R: g.redir()})
		}
	}
	if len(c.Pre) == 0 || g.p(4, 5) {
		if g.p(1, 6) {
			c.Name = g.wordNoAssign()
		} else {
			c.Name = LW(pickS(g, cmdNames))
		}
		for g.p(3, 5) && len(c.Post) < 4 {
			if g.p(1, 6) {
				c.Post = append(c.Post, Item{R: g.redir()})
			} else {
				c.Post = append(c.Post, Item{W: g.word(false)})
			}
		}
	}
	return c
}

func (g *G) redir() *Redir {
	r := &Redir{}
	if g.p(1, 4) {
		r.N = pickS(g, []string{"0", "1", "2", "3", "10"})
	}
	if g.O.Heredocs && g.nhd < g.O.MaxHD && g.inWord <= 1 && (g.p(1, 3) || (g.O.HDBias && g.p(2, 3))) {
		g.nhd++
		r.HD = g.heredoc()
		r.Op = "<<"
		if r.HD.Dash {
			r.Op = "<<-"
		}
		r.W = r.HD.Delim
		return r
	}
	r.Op = pickS(g, redirOps)
	switch r.Op {
	case "<&", ">&":
		r.W = LW(pickS(g, []string{"1", "2", "-", "3"}))
	default:
		if g.p(1, 4) {
			r.W = g.word(false)
		} else {
			r.W = LW(pickS(g, []string{"f", "/dev/null", "out.txt", "日本"}))
		}
	}
	return r
}

var hdQuotedLines = []string{"", " ", "text", "\tindented", "$x", "${x:-y}", "$(c)", "`c`", `\$x`, `\\`, `\`, "'", `"`, "# c", "日本語", "a  b", "}", ")", "fi"}

func (g *G) heredoc() *Heredoc {
	h := &Heredoc{Dash: g.p(1, 3)}
	base := pickS(g, []string{"E", "EOF", "終", "END_1", "-E"})
	h.DelimText = base
	k := g.n(7)
	if g.p(1, 12) {
		// the empty delimiter (<<'' or <<""): an empty line ends the body
		base, h.DelimText, k = "", "", g.n(2)
	}
	switch k {
	case 6:
		// escapes inside a double-quoted delimiter are removed as well: "E\"\$F" stands for E"$F
		h.DelimText = base + `"$` + "F"
		h.Delim, h.Quoted = W(Part{K: "dq", Sub: []Part{Lit(base), {K: "esc", S: `"`}, {K: "esc", S: "$"}, Lit("F")}}), true
		base = h.DelimText
	case 0:
		h.Delim, h.Quoted = W(Part{K: "sq", S: base}), true
	case 1:
		h.Delim, h.Quoted = W(Part{K: "dq", Sub: []Part{Lit(base)}}), true
	case 2:
		rs := []rune(base)
		h.Delim, h.Quoted = W(Part{K: "esc", S: string(rs[:1])}), true
		if len(rs) > 1 {
			h.Delim.Parts = append(h.Delim.Parts, Lit(string(rs[1:])))
		}
	case 3:
		rs := []rune(base)
		if len(rs) >= 3 {
			h.Delim, h.Quoted = W(Lit(string(rs[:1])), Part{K: "sq", S: string(rs[1:2])}, Lit(string(rs[2:]))), true
		} else {
			h.Delim = LW(base)
		}
	default:
		h.Delim = LW(base)
	}
	if h.Dash && g.p(1, 2) {
		h.TabTerm = true
		if g.p(1, 2) {
			h.MoreTabs = 1 + g.n(3) // a terminator nested two to four levels deep
		}
	}
	if !h.Quoted && h.DelimText != "" && g.p(1, 12) {
		h.ContTerm = 1 + g.n(len([]rune(h.DelimText)))
	}
	nl := g.n(5)
	for i := 0; i < nl; i++ {
		var ln []Part
		if h.Quoted {
			s := pickS(g, hdQuotedLines)
			switch g.n(8) {
			case 0:
				s = base + " x" // delimiter + suffix
			case 1:
				s = string([]rune(base + "_")[:1]) // prefix of the delimiter (or the whole of a one-rune one: fixed below)
			case 2:
				s = " " + base // delimiter with a leading blank
			case 3:
				if !h.Dash {
					s = "\t" + base // for << a tab-indented delimiter is body text
				}
			}
			ln = []Part{Lit(s)}
		} else {
			ln = g.hdLine(base, h.Dash)
		}
		if g.p(1, 10) {
			// the delimiter followed by a tab (and maybe after tabs): body text, for <<- too (only leading tabs are stripped)
			ln = []Part{Lit(pickS(g, []string{base + "\t", "\t" + base + "\t", base + "\t\t", base + " "}))}
		}
		if g.p(1, 10) {
			// the delimiter of another here-document (maybe one pending on the same line) is body text here
			ln = []Part{Lit(pickS(g, []string{"E", "EOF", "終", "END_1", "-E", "\tE"}))}
		}
		if txt := partsText(ln); txt == base || (h.Dash && strings.TrimLeft(txt, "\t") == base) {
			ln = []Part{Lit(base + "_")}
		}
		h.Lines = append(h.Lines, ln)
	}
	return h
}

func (g *G) hdLine(base string, dash bool) []Part {
	var ps []Part
	n := g.n(4)
	for i := 0; i < n; i++ {
		switch g.n(10) {
		case 0:
			ps = append(ps, Part{K: "esc", S: pickS(g, []string{"$", `\`, "`"})})
		case 1:
			ps = append(ps, Part{K: "param", S: pickS(g, varNames[:4]), Braces: true})
		case 2:
			ps = append(ps, Part{K: "param", S: "x", Op: ":-", W: LW("y")})
		case 3:
			if !g.O.NoNested {
				ps = append(ps, Part{K: "cmdsub", List: List1(Simple("c", "d"), "", false)})
			}
		case 4:
			if !g.O.NoNested {
				ps = append(ps, Part{K: "bq", List: List1(Simple("c"), "", false)})
			}
		case 5:
			ps = append(ps, Part{K: "arith", Expr: []Atom{{P: Lit("1+2")}}})
		case 6:
			ps = append(ps, Lit(pickS(g, []string{"\t", " ", "'", `"`, "# c", "日本語", base + " x", " " + base, "}", ")", `\"q\"`, `\a`, `\'`})))
		default:
			ps = append(ps, Lit(g.litText(1+g.n(5))+" "))
		}
	}
	if g.p(1, 6) {
		// the line ends with an expansion or an escape directly followed by the delimiter's text: body, not the terminator
		ps = append(ps, []Part{{K: "param", S: "x", Braces: true}, {K: "esc", S: "$"}, {K: "arith", Expr: []Atom{{P: Lit("1+2")}}}, {K: "esc", S: `\`}}[g.n(4)], Lit(base))
	}
	if !dash && g.p(1, 8) {
		ps = append([]Part{Lit("\t" + base)}, ps...)
		if len(ps) == 1 {
			return ps
		}
	}
	return ps
}

// word generates a word; assignOK: in an assignment value position.
func (g *G) word(value bool) *Word {
	g.inWord++
	defer func() { g.inWord-- }()
	if value && g.p(1, 6) {
		return W() // empty value: x=
	}
	if value && g.p(1, 8) {
		// further "=" in the value, also as the last character of a literal: only the first one separates
		w := W(Lit(pickS(g, []string{"a=", "=", "-DX=", "a=b=", "==", "a=b"})))
		switch g.n(4) {
		case 0:
			w.Parts = append(w.Parts, Part{K: "param", S: "x"})
		case 1:
			w.Parts = append(w.Parts, Part{K: "dq", Sub: []Part{{K: "param", S: "y", Braces: true}}})
		case 2:
			w.Parts = append(w.Parts, Part{K: "sq", S: "q="}, Lit("=r"))
		}
		return w
	}
	if g.p(1, 2) {
		if value {
			return LW(g.litText(1 + g.n(4)))
		}
		return LW(pickS(g, argWords))
	}
	if !value && g.p(1, 10) {
		// digits continued by a quoted / expanded part: a word, never an IO number,
		// even directly in front of a redirection operator
		tail := []Part{{K: "param", S: "x"}, {K: "dq"}, {K: "sq", S: "x"}, {K: "param", S: "y", Braces: true}}[g.n(4)]
		return W(Lit(pickS(g, []string{"1", "2", "10", "0"})), tail)
	}
	w := &Word{}
	n := 1 + g.n(3)
	for i := 0; i < n; i++ {
		w.Parts = append(w.Parts, g.part("word"))
	}
	fixAdjacency(w.Parts)
	if !value && len(w.Parts) > 0 && w.Parts[0].K == "lit" && isReservedOrBrace(WordText(w)) {
		w.Parts[0].S = "r" + w.Parts[0].S
	}
	return w
}

func isReservedOrBrace(s string) bool {
	switch s {
	case "!", "{", "}", "for", "case", "esac", "in", "if", "elif", "then", "else", "fi", "while", "until", "do", "done":
		return true
	}
	return false
}

// wordNoAssign: a command-name word that cannot be taken for an assignment, a
// reserved word or (with a following "(") a function name with special meaning.
func (g *G) wordNoAssign() *Word {
	w := g.word(false)
	if len(w.Parts) == 0 {
		return LW("cmd")
	}
	if w.Parts[0].K == "lit" {
		s := w.Parts[0].S
		if strings.Contains(s, "=") || isReservedOrBrace(WordText(w)) {
			w.Parts[0].S = "./" + strings.ReplaceAll(s, "=", "_")
		}
	}
	return w
}

func isNameStart(r rune) bool {
	return r == '_' || (r >= 'a' && r <= 'z') || (r >= 'A' && r <= 'Z') || r > 127
}
func isNameRune(r rune) bool { return isNameStart(r) || (r >= '0' && r <= '9') }

// fixAdjacency makes "$name" followed by literal text unambiguous by bracing it.
func fixAdjacency(ps []Part) {
	for i := 0; i+1 < len(ps); i++ {
		if ps[i].K == "param" && !ps[i].Braces && ps[i].Op == "" && ps[i+1].K == "lit" {
			ps[i].Braces = true
		}
	}
}

func (g *G) part(ctx string) Part {
	g.budget--
	k := g.n(20)
	switch {
	case k < 6:
		return Lit(g.litText(1 + g.n(4)))
	case k < 8:
		return Part{K: "sq", S: pickS(g, []string{"", "a b", "$x", `\`, "*?", "日本", "a\nb", `"`, ";|&", "#c"})}
	case k < 10:
		return g.dq()
	case k < 11:
		return Part{K: "esc", S: pickS(g, []string{" ", "$", `\`, "'", `"`, "*", "a", ";", "#", "é", "|", "`", "(", "<"})}
	case k < 15:
		return g.param(ctx)
	case k < 17:
		if g.O.NoNested || g.budget <= 0 {
			return Lit(g.litText(2))
		}
		return Part{K: "cmdsub", List: g.nested()}
	case k < 18:
		if g.O.NoNested || g.budget <= 0 || ctx == "bq" || ctx == "paramword" {
			return Lit(g.litText(2))
		}
		return Part{K: "bq", List: g.nestedBQ()}
	default:
		return Part{K: "arith", Expr: g.atoms()}
	}
}

func (g *G) dq() Part {
	d := Part{K: "dq"}
	n := g.n(4)
	for i := 0; i < n; i++ {
		switch g.n(8) {
		case 0:
			d.Sub = append(d.Sub, Part{K: "esc", S: pickS(g, []string{"$", "`", `"`, `\`})})
		case 1:
			d.Sub = append(d.Sub, g.param("dq"))
		case 2:
			if !g.O.NoNested && g.budget > 0 {
				d.Sub = append(d.Sub, Part{K: "cmdsub", List: g.nested()})
			}
		case 3:
			d.Sub = append(d.Sub, Part{K: "arith", Expr: g.atoms()})
		case 4:
			d.Sub = append(d.Sub, Lit(pickS(g, []string{`\a`, "'", " ", "a b", "#", ";", "*", "~", "日本", "a\nb", "(", "}"})))
		default:
			d.Sub = append(d.Sub, Lit(g.litText(1+g.n(3))))
		}
	}
	fixAdjacency(d.Sub)
	return d
}

func (g *G) param(ctx string) Part {
	switch g.n(6) {
	case 0:
		return Part{K: "param", S: pickS(g, specials)}
	case 1:
		return Part{K: "param", S: pickS(g, varNames)}
	case 2:
		return Part{K: "param", S: pickS(g, append(varNames, "10", "@", "#")), Braces: true}
	case 3:
		return Part{K: "param", S: pickS(g, append(varNames, "@", "*", "1", "?")), Op: "len"}
	default:
		p := Part{K: "param", S: pickS(g, append(varNames, "1", "@", "*")), Op: pickS(g, paramOps)}
		if g.p(1, 6) {
			// a special parameter under an operator: ${#%}, ${?:-w}, ${-#x}, ...
			p.S = pickS(g, []string{"#", "?", "-", "$", "!", "0"})
		}
		p.W = g.paramWord()
		if p.S == "#" && len(p.W.Parts) == 0 && (p.Op == "-" || p.Op == "?" || p.Op == "#") {
			// ${#-} ${#?} ${##} are the lengths of $- $? $#
			p.Op = "%"
		}
		// "${x%%w}" is the %% operator, and the repo's tests pin "${x%#}" as a syntax
		// error: a word for % or # never begins with % or #
		if (p.Op == "%" || p.Op == "#") && len(p.W.Parts) > 0 && strings.ContainsAny(partText(p.W.Parts[0])[:1], "%#") {
			p.W.Parts = append([]Part{{K: "sq", S: ""}}, p.W.Parts...)
		}
		return p
	}
}

func (g *G) paramWord() *Word {
	g.inWord += 2
	defer func() { g.inWord -= 2 }()
	w := &Word{}
	n := g.n(3)
	for i := 0; i < n; i++ {
		switch g.n(10) {
		case 8:
			if !g.O.NoNested {
				w.Parts = append(w.Parts, Part{K: "cmdsub", List: List1(Simple("c", "d"), "", false)})
			}
		case 9:
			if !g.O.NoNested {
				w.Parts = append(w.Parts, Part{K: "bq", List: List1(Simple("c"), "", false)})
			}
		case 0:
			w.Parts = append(w.Parts, Part{K: "sq", S: pickS(g, []string{"", "a b", "}", "*"})})
		case 1:
			w.Parts = append(w.Parts, g.dq())
		case 2:
			w.Parts = append(w.Parts, Part{K: "esc", S: pickS(g, []string{"}", "$", `\`, " ", "*"})})
		case 3:
			if g.budget > 0 {
				g.budget--
				w.Parts = append(w.Parts, g.param("paramword"))
			}
		case 4:
			w.Parts = append(w.Parts, Lit(pickS(g, []string{"a b", "*", "?", "/*", "*.txt", "[a-z]", " "})))
		default:
			w.Parts = append(w.Parts, Lit(g.litText(1+g.n(3))))
		}
	}
	fixAdjacency(w.Parts)
	return w
}

func (g *G) atoms() []Atom {
	var as []Atom
	ops := []string{"+", "-", "*", "/", "%", "<<", "==", "&&", "|", "<", "?", ":", "=", "+="}
	operand := func() Part {
		switch g.n(6) {
		case 0:
			return Part{K: "param", S: pickS(g, varNames[:4])}
		case 1:
			return Part{K: "param", S: "x", Braces: true}
		case 2:
			return Lit(pickS(g, varNames[:4]))
		case 3:
			return Lit("(" + pickS(g, []string{"1+2", "x", "3*y"}) + ")")
		default:
			return Lit(pickS(g, []string{"0", "1", "42", "0x1F", "010"}))
		}
	}
	sp := g.p(1, 2)
	lead := g.p(1, 3)
	n := 1 + g.n(3)
	for i := 0; i < n; i++ {
		if i > 0 {
			as = append(as, Atom{Space: sp, P: Lit(pickS(g, ops))})
		}
		as = append(as, Atom{Space: (i > 0 && sp) || (i == 0 && lead), P: operand()})
	}
	// "$name" directly followed by literal text would extend the name
	for i := 0; i+1 < len(as); i++ {
		if as[i].P.K == "param" && !as[i].P.Braces && as[i+1].P.K == "lit" && !as[i+1].Space {
			if r := []rune(as[i+1].P.S); len(r) > 0 && isNameRune(r[0]) {
				as[i].P.Braces = true
			}
		}
	}
	if lead && g.p(1, 2) {
		// trailing blank before ))
		as = append(as, Atom{Space: true, P: Lit("")})
	}
	return as
}

// nested generates the list of a $( ) command substitution.
func (g *G) nested() *CList {
	g.inWord++
	sp := g.paren
	g.paren = 1
	defer func() { g.inWord--; g.paren = sp }()
	return g.clist("cmdsub", false)
}

func (g *G) nestedBQ() *CList {
	g.inWord += 3 // no here-documents, no further backquotes
	defer func() { g.inWord -= 3 }()
	o := g.O
	sp := g.paren
	g.paren = 0
	g.O.NoNested = true
	cl := g.clist("bq", false)
	g.O = o
	g.paren = sp
	return cl
}

// clist generates a compound list; needTerm: the closing token is a reserved
// word, so the last and-or list must end in a separator or a newline.
func (g *G) clist(parent string, needTerm bool) *CList {
	cl := &CList{LeadNL: !g.O.Flat && g.p(1, 4)}
	n := 1
	if g.budget > 2 && g.p(2, 5) {
		n += g.n(3)
	}
	for i := 0; i < n; i++ {
		ao := g.andor(parent)
		last := i == n-1
		if g.O.Flat {
			if !last || needTerm || g.p(1, 4) {
				ao.Sep = pickS(g, []string{";", ";", ";", "&"})
			}
		} else {
			switch g.n(5) {
			case 0:
				ao.Sep = ";"
			case 1:
				ao.Sep, ao.NL = pickS(g, []string{";", "&"}), true
			case 2:
				ao.Sep = "&"
			default:
				ao.NL = true
			}
			if last && !needTerm && g.p(1, 2) {
				ao.Sep, ao.NL = "", false
			}
		}
		cl.Items = append(cl.Items, ao)
	}
	// a reserved word is recognised directly after a compound command's closing
	// token: the separator before then/do/fi/done/}/esac/elif/else is optional there
	if last := cl.Items[len(cl.Items)-1]; needTerm && endsWithCloser(lastPipe(last)) && g.p(1, 2) {
		last.Sep, last.NL = "", false
		g.pair(parent, "closer-then-reserved")
	}
	return cl
}

func lastPipe(ao *AndOr) *Pipeline {
	if n := len(ao.Rest); n > 0 {
		return ao.Rest[n-1].P
	}
	return ao.First
}

// endsWithCloser reports whether the pipeline's text ends with the closing token
// of a compound command.
func endsWithCloser(p *Pipeline) bool {
	c := p.Cmds[len(p.Cmds)-1]
	for c.K == "func" {
		c = c.FBody
	}
	return c.K != "simple" && len(c.Redirs) == 0
}

func (g *G) compound() *Cmd {
	var c *Cmd
	switch k := g.n(20); {
	case k < 3:
		g.paren++
		c = &Cmd{K: "subshell", Body: g.clist("subshell", false)}
		g.paren--
	case k < 6:
		c = &Cmd{K: "group", Body: g.clist("group", true)}
	case k < 7:
		// "((" is the arithmetic command at every parenthesis depth (inside ( ), $( ), after a case item)
		c = &Cmd{K: "arith", Expr: g.atoms()}
	case k < 10:
		c = &Cmd{K: "for", Var: pickS(g, varNames), HasIn: g.p(7, 10)}
		if c.HasIn {
			for i := g.n(4); i > 0; i-- {
				c.Items = append(c.Items, g.word(false))
			}
			c.ForSep = pickS(g, []string{";", "\n"})
		} else {
			c.ForSep = pickS(g, []string{";", "\n", ""})
		}
		if g.O.Flat && c.ForSep == "\n" {
			c.ForSep = ";"
		}
		c.Body = g.clist("for", true)
	case k < 13:
		c = &Cmd{K: "case", Word: g.word(false)}
		n := g.n(4)
		for i := 0; i < n; i++ {
			it := &CaseItem{Lparen: g.p(1, 3), Break: true}
			for j := 1 + g.n(3); j > 0; j-- {
				w := g.word(false)
				if WordText(w) == "esac" && len(it.Pats) == 0 {
					// as first pattern the word esac is only recognised after "("
					it.Lparen = true
				}
				it.Pats = append(it.Pats, w)
			}
			last := i == n-1
			if last && g.p(1, 3) {
				it.Break = false
			}
			if g.p(3, 4) {
				it.Body = g.clist("case", !it.Break)
			}
			c.Cases = append(c.Cases, it)
			g.sawCase = true
		}
	case k < 16:
		c = &Cmd{K: "if", Cond: g.clist("if-cond", true), Body: g.clist("then", true)}
		for g.p(1, 4) && len(c.Elifs) < 2 {
			c.Elifs = append(c.Elifs, Elif{Cond: g.clist("elif-cond", true), Body: g.clist("then", true)})
		}
		if g.p(1, 3) {
			c.Else = g.clist("else", true)
		}
	case k < 18:
		c = &Cmd{K: pickS(g, []string{"while", "until"}), Cond: g.clist("loop-cond", true), Body: g.clist("do", true)}
	default:
		body := g.compound()
		for body.K == "func" {
			body = g.compound()
		}
		c = &Cmd{K: "func", Var: pickS(g, funcNames), FBody: body}
		g.pair("func", body.K)
		return c
	}
	for g.p(1, 6) && len(c.Redirs) < 2 {
		c.Redirs = append(c.Redirs, g.redir())
	}
	return c
}
