package gen

// Heredocs lists the here-documents of a program in the order in which a walk
// of the AST meets their redirections: for every command first the words
// (assignment values, command words), then its redirections in source order;
// nested command substitutions are visited where their word is.
func Heredocs(p *Program) []*Heredoc {
	var out []*Heredoc
	var clist func(cl *CList)
	var cmd func(c *Cmd)
	var word func(w *Word)
	var parts func(ps []Part)
	parts = func(ps []Part) {
		for _, p := range ps {
			switch p.K {
			case "dq":
				parts(p.Sub)
			case "param":
				if p.W != nil {
					word(p.W)
				}
			case "cmdsub", "bq":
				clist(p.List)
			case "arith":
				for _, a := range p.Expr {
					parts([]Part{a.P})
				}
			}
		}
	}
	word = func(w *Word) {
		if w != nil {
			parts(w.Parts)
		}
	}
	redir := func(r *Redir) {
		word(r.W)
		if r.HD != nil {
			out = append(out, r.HD)
		}
	}
	cmd = func(c *Cmd) {
		if c == nil {
			return
		}
		switch c.K {
		case "simple":
			for _, it := range c.Pre {
				if it.A != nil {
					word(it.A.W)
				}
			}
			word(c.Name)
			for _, it := range c.Post {
				if it.W != nil {
					word(it.W)
				}
			}
			for _, it := range c.Pre {
				if it.R != nil {
					redir(it.R)
				}
			}
			for _, it := range c.Post {
				if it.R != nil {
					redir(it.R)
				}
			}
			return
		case "arith":
			for _, a := range c.Expr {
				parts([]Part{a.P})
			}
		case "for":
			for _, w := range c.Items {
				word(w)
			}
			clist(c.Body)
		case "case":
			word(c.Word)
			for _, it := range c.Cases {
				for _, p := range it.Pats {
					word(p)
				}
				if it.Body != nil {
					clist(it.Body)
				}
			}
		case "if":
			clist(c.Cond)
			clist(c.Body)
			for _, e := range c.Elifs {
				clist(e.Cond)
				clist(e.Body)
			}
			if c.Else != nil {
				clist(c.Else)
			}
		case "while", "until":
			clist(c.Cond)
			clist(c.Body)
		case "func":
			cmd(c.FBody)
			return
		default:
			clist(c.Body)
		}
		for _, r := range c.Redirs {
			redir(r)
		}
	}
	clist = func(cl *CList) {
		if cl == nil {
			return
		}
		for _, ao := range cl.Items {
			ps := []*Pipeline{ao.First}
			for _, r := range ao.Rest {
				ps = append(ps, r.P)
			}
			for _, p := range ps {
				for _, c := range p.Cmds {
					cmd(c)
				}
			}
		}
	}
	clist(p.List)
	return out
}
