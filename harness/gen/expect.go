package gen

import (
	"fmt"
	"strings"
)

// Expect returns the strict position-free skeleton the documented node shapes
// prescribe for the complete command (the format of skel.Cmds(..., Strict)).
//
// Encoded shapes (ast doc comments, README, the builders of parser_test.go):
// a complete command with >=2 and-or lists joined by ;/& is an ast.List; a single
// one is an *AndOrList when it has && / || or a separator, a *Pipeline when it
// has ! or |, else a *Cmd.  In a compound list, and-or lists joined by ; or &
// (with or without a following newline) share one List, a bare newline starts a
// new Command.
func Expect(p *Program) string {
	e := &expecter{}
	e.commands(p.List)
	return e.b.String()
}

// ExpectWord renders the expected skeleton of one word.
func ExpectWord(w *Word) string {
	e := &expecter{}
	e.word(w.Parts)
	return e.b.String()
}

type expecter struct{ b strings.Builder }

func (e *expecter) ws(s string) { e.b.WriteString(s) }

// commands renders a list / compound list as a sequence of Commands.
func (e *expecter) commands(cl *CList) {
	var group []*AndOr
	first := true
	flush := func() {
		if len(group) == 0 {
			return
		}
		if !first {
			e.ws(" ")
		}
		first = false
		if len(group) > 1 {
			e.ws("(list")
			for _, ao := range group {
				e.ws(" ")
				e.andor(ao)
			}
			e.ws(")")
		} else {
			ao := group[0]
			switch {
			case len(ao.Rest) > 0 || ao.Sep != "":
				e.andor(ao)
			case ao.First.Bang || len(ao.First.Cmds) > 1:
				e.pipeline(ao.First)
			default:
				e.cmd(ao.First.Cmds[0])
			}
		}
		group = nil
	}
	for _, ao := range cl.Items {
		group = append(group, ao)
		if !cl.Top && ao.Sep == "" && ao.NL {
			flush()
		}
	}
	flush()
}

func (e *expecter) andor(ao *AndOr) {
	e.ws("(andor ")
	e.pipeline(ao.First)
	for _, it := range ao.Rest {
		e.ws(" (" + it.Op + " ")
		e.pipeline(it.P)
		e.ws(")")
	}
	if ao.Sep != "" {
		e.ws(" sep=" + ao.Sep)
	}
	e.ws(")")
}

func (e *expecter) pipeline(p *Pipeline) {
	e.ws("(pipe")
	if p.Bang {
		e.ws(" !")
	}
	for _, c := range p.Cmds {
		e.ws(" ")
		e.cmd(c)
	}
	e.ws(")")
}

func (e *expecter) redir(r *Redir) {
	e.ws("(redir ")
	if r.N != "" {
		e.ws("n=" + r.N + " ")
	}
	e.ws(r.Op + " ")
	e.word(r.W.Parts)
	if r.HD != nil {
		e.ws(" heredoc=")
		e.heredoc(r.HD)
	}
	e.ws(")")
}

func (e *expecter) heredoc(h *Heredoc) {
	var ps []Part
	for _, ln := range h.Lines {
		ps = append(ps, ln...)
		ps = append(ps, Lit("\n"))
	}
	if h.Quoted {
		// the whole body is literal text
		var b strings.Builder
		for _, p := range ps {
			b.WriteString(partText(p))
		}
		ps = nil
		if b.Len() > 0 {
			ps = []Part{Lit(b.String())}
		}
	}
	e.word(ps)
}

func (e *expecter) cmd(c *Cmd) {
	e.ws("(cmd ")
	var redirs []*Redir
	switch c.K {
	case "simple":
		e.ws("(simple")
		for _, it := range c.Pre {
			if it.A != nil {
				e.ws(" (assign " + it.A.Name + " = ")
				e.word(it.A.W.Parts)
				e.ws(")")
			} else {
				redirs = append(redirs, it.R)
			}
		}
		if c.Name != nil {
			e.ws(" ")
			e.word(c.Name.Parts)
		}
		for _, it := range c.Post {
			if it.W != nil {
				e.ws(" ")
				e.word(it.W.Parts)
			} else {
				redirs = append(redirs, it.R)
			}
		}
		e.ws(")")
	case "subshell":
		e.ws("(subshell ")
		e.commands(c.Body)
		e.ws(")")
	case "group":
		e.ws("(group ")
		e.commands(c.Body)
		e.ws(")")
	case "arith":
		e.ws("(arith ")
		e.atoms(c.Expr)
		e.ws(")")
	case "for":
		e.ws("(for " + c.Var)
		if c.HasIn {
			e.ws(" (in")
			for _, w := range c.Items {
				e.ws(" ")
				e.word(w.Parts)
			}
			e.ws(")")
		}
		if c.ForSep == ";" {
			e.ws(" semi")
		}
		e.ws(" (do ")
		e.commands(c.Body)
		e.ws("))")
	case "case":
		e.ws("(case ")
		e.word(c.Word.Parts)
		for _, it := range c.Cases {
			e.ws(" (item")
			if it.Lparen {
				e.ws(" lparen")
			}
			e.ws(" (pat")
			for _, p := range it.Pats {
				e.ws(" ")
				e.word(p.Parts)
			}
			e.ws(")")
			if it.Body != nil && len(it.Body.Items) > 0 {
				e.ws(" ")
				e.commands(it.Body)
			}
			if it.Break {
				e.ws(" break")
			}
			e.ws(")")
		}
		e.ws(")")
	case "if":
		e.ws("(if (cond ")
		e.commands(c.Cond)
		e.ws(") (then ")
		e.commands(c.Body)
		e.ws(")")
		for _, el := range c.Elifs {
			e.ws(" (elif (cond ")
			e.commands(el.Cond)
			e.ws(") (then ")
			e.commands(el.Body)
			e.ws("))")
		}
		if c.Else != nil {
			e.ws(" (else ")
			e.commands(c.Else)
			e.ws(")")
		}
		e.ws(")")
	case "while", "until":
		e.ws("(" + c.K + " (cond ")
		e.commands(c.Cond)
		e.ws(") (do ")
		e.commands(c.Body)
		e.ws("))")
	case "func":
		e.ws("(func " + c.Var + " ")
		e.cmd(c.FBody)
		e.ws(")")
	default:
		panic("gen: expect: unknown command kind " + c.K)
	}
	redirs = append(redirs, c.Redirs...)
	for _, r := range redirs {
		e.ws(" ")
		e.redir(r)
	}
	e.ws(")")
}

func (e *expecter) atoms(as []Atom) {
	e.ws("(w")
	var lit strings.Builder
	flush := func() {
		if lit.Len() > 0 {
			e.ws(fmt.Sprintf(" (lit %q)", lit.String()))
			lit.Reset()
		}
	}
	for _, a := range as {
		if a.P.K == "lit" {
			if a.Space {
				flush()
			}
			lit.WriteString(a.P.S)
			continue
		}
		flush()
		e.ws(" ")
		e.part(a.P)
	}
	flush()
	e.ws(")")
}

func (e *expecter) word(ps []Part) {
	e.ws("(w")
	var lit strings.Builder
	flush := func() {
		if lit.Len() > 0 {
			e.ws(fmt.Sprintf(" (lit %q)", lit.String()))
			lit.Reset()
		}
	}
	for _, p := range ps {
		if p.K == "lit" {
			lit.WriteString(p.S)
			continue
		}
		flush()
		e.ws(" ")
		e.part(p)
	}
	flush()
	e.ws(")")
}

func (e *expecter) part(p Part) {
	switch p.K {
	case "lit":
		e.ws(fmt.Sprintf("(lit %q)", p.S))
	case "sq":
		e.ws("(q ' ")
		if p.S == "" {
			e.ws("(w)")
		} else {
			e.ws(fmt.Sprintf("(w (lit %q))", p.S))
		}
		e.ws(")")
	case "dq":
		e.ws(`(q " `)
		e.word(p.Sub)
		e.ws(")")
	case "esc":
		e.ws(`(q \ ` + fmt.Sprintf("(w (lit %q))", p.S) + ")")
	case "param":
		e.ws("(param " + p.S)
		switch {
		case p.Op == "len":
			e.ws(" braces op=#")
		case p.Op != "":
			e.ws(" braces op=" + p.Op + " ")
			e.word(p.W.Parts)
		case p.Braces:
			e.ws(" braces")
		}
		e.ws(")")
	case "cmdsub":
		e.ws("(cmdsubst $ ")
		e.commands(p.List)
		e.ws(")")
	case "bq":
		e.ws("(cmdsubst ` ")
		e.commands(p.List)
		e.ws(")")
	case "arith":
		e.ws("(arithexp ")
		e.atoms(p.Expr)
		e.ws(")")
	default:
		panic("gen: expect: unknown part kind " + p.K)
	}
}
