package gen

import (
	"strings"
	"unicode/utf8"
)

type TokKind int

const (
	TWord TokKind = iota
	TAssign
	TIONum
	TOp
	TRes
	TNewline
	THereBody
	TArith // a whole (( ... )) command
)

// Tok is one token of the rendered program.
type Tok struct {
	Text     string
	Kind     TokKind
	Glue     bool // must touch the next token
	LB       bool // the grammar has `linebreak` after this token
	CmdPos   bool // word in command-name position of a simple command
	CmdStart bool // first token of a pipeline or command: a position where an alias name could stand
	Depth    int  // compound nesting depth of the token (0 = top level)
	Final    bool // the newline that ends the complete command
	HDPend   bool // a here-document body is pending after this token: the next newline must be the newline token
	// filled by Join
	Off, Line, Col int // byte offset, 1-based line and rune column
}

type tokenizer struct {
	cmdStart bool
	toks     []Tok
	depth    int
	pending  [][]*Heredoc
}

func (t *tokenizer) emit(k Tok) {
	if t.cmdStart {
		k.CmdStart = true
		t.cmdStart = false
	}
	k.Depth = t.depth
	k.HDPend = len(t.pending[len(t.pending)-1]) > 0
	t.toks = append(t.toks, k)
}

func (t *tokenizer) newline(final bool) {
	n := len(t.pending) - 1
	hds := t.pending[n]
	t.pending[n] = nil
	t.emit(Tok{Text: "\n", Kind: TNewline, LB: len(hds) == 0 && !final, Final: final})
	for i, h := range hds {
		t.emit(Tok{Text: HeredocText(h), Kind: THereBody, LB: i == len(hds)-1 && !final, Final: final})
	}
}

// HeredocText is the body lines plus the delimiter line of a here-document.
func HeredocText(h *Heredoc) string {
	var b strings.Builder
	for _, ln := range h.Lines {
		for _, p := range ln {
			b.WriteString(partText(p))
		}
		b.WriteByte('\n')
	}
	if h.TabTerm {
		b.WriteString(strings.Repeat("\t", 1+h.MoreTabs))
	}
	if rs := []rune(h.DelimText); h.ContTerm > 0 && h.ContTerm <= len(rs) {
		b.WriteString(string(rs[:h.ContTerm]) + "\\\n" + string(rs[h.ContTerm:]))
	} else {
		b.WriteString(h.DelimText)
	}
	b.WriteByte('\n')
	return b.String()
}

// BodyText is the body of a here-document as written (without the delimiter line).
func BodyText(h *Heredoc) string {
	var b strings.Builder
	for _, ln := range h.Lines {
		for _, p := range ln {
			b.WriteString(partText(p))
		}
		b.WriteByte('\n')
	}
	return b.String()
}

// Tokens renders a complete command into tokens (layout-independent).
func Tokens(p *Program, finalNewline bool) []Tok {
	t := &tokenizer{pending: [][]*Heredoc{nil}}
	t.clist(p.List)
	if finalNewline || len(t.pending[0]) > 0 {
		t.newline(true)
	}
	return t.toks
}

func (t *tokenizer) clist(cl *CList) {
	if cl.LeadNL && !cl.Top {
		t.newline(false)
	}
	for _, ao := range cl.Items {
		t.pipeline(ao.First)
		for _, it := range ao.Rest {
			t.emit(Tok{Text: it.Op, Kind: TOp, LB: true})
			if it.NL {
				t.newline(false)
			}
			t.pipeline(it.P)
		}
		if ao.Sep != "" {
			t.emit(Tok{Text: ao.Sep, Kind: TOp, LB: !cl.Top})
		}
		if ao.NL {
			t.newline(false)
		}
	}
}

func (t *tokenizer) pipeline(p *Pipeline) {
	t.cmdStart = true
	if p.Bang {
		t.emit(Tok{Text: "!", Kind: TRes})
	}
	for i, c := range p.Cmds {
		if i > 0 {
			t.emit(Tok{Text: "|", Kind: TOp, LB: true})
			if i-1 < len(p.NLs) && p.NLs[i-1] {
				t.newline(false)
			}
		}
		t.cmd(c)
	}
}

func (t *tokenizer) redir(r *Redir) {
	if r.N != "" {
		t.emit(Tok{Text: r.N, Kind: TIONum, Glue: true})
	}
	t.emit(Tok{Text: r.Op, Kind: TOp})
	t.emit(Tok{Text: WordText(r.W), Kind: TWord})
	if r.HD != nil {
		n := len(t.pending) - 1
		t.pending[n] = append(t.pending[n], r.HD)
	}
}

func (t *tokenizer) res(s string, lb bool) { t.emit(Tok{Text: s, Kind: TRes, LB: lb}) }
func (t *tokenizer) op(s string, lb bool)  { t.emit(Tok{Text: s, Kind: TOp, LB: lb}) }

func (t *tokenizer) body(cl *CList) {
	t.depth++
	t.clist(cl)
	t.depth--
}

func (t *tokenizer) cmd(c *Cmd) {
	if n := len(t.toks); n == 0 || t.toks[n-1].Text != "!" || t.toks[n-1].Kind != TRes {
		t.cmdStart = true
	}
	switch c.K {
	case "simple":
		for _, it := range c.Pre {
			if it.A != nil {
				t.emit(Tok{Text: it.A.Name + "=" + WordText(it.A.W), Kind: TAssign})
			} else {
				t.redir(it.R)
			}
		}
		if c.Name != nil {
			t.emit(Tok{Text: WordText(c.Name), Kind: TWord, CmdPos: true})
		}
		for _, it := range c.Post {
			if it.W != nil {
				t.emit(Tok{Text: WordText(it.W), Kind: TWord})
			} else {
				t.redir(it.R)
			}
		}
		return
	case "subshell":
		t.op("(", true)
		t.body(c.Body)
		t.op(")", false)
	case "group":
		t.res("{", true)
		t.body(c.Body)
		t.res("}", false)
	case "arith":
		t.emit(Tok{Text: "((" + atomsText(c.Expr) + "))", Kind: TArith})
	case "for":
		t.res("for", false)
		t.emit(Tok{Text: c.Var, Kind: TWord, LB: c.HasIn})
		if c.HasIn {
			t.res("in", false)
			for _, w := range c.Items {
				t.emit(Tok{Text: WordText(w), Kind: TWord})
			}
		}
		switch c.ForSep {
		case ";":
			t.op(";", true)
		case "\n":
			t.depth++
			t.newline(false)
			t.depth--
		}
		t.res("do", true)
		t.body(c.Body)
		t.res("done", false)
	case "case":
		t.res("case", false)
		t.emit(Tok{Text: WordText(c.Word), Kind: TWord, LB: true})
		t.res("in", true)
		t.depth++
		for _, it := range c.Cases {
			if it.Lparen {
				t.op("(", false)
			}
			for i, p := range it.Pats {
				if i > 0 {
					t.op("|", false)
				}
				t.emit(Tok{Text: WordText(p), Kind: TWord})
			}
			t.op(")", true)
			if it.Body != nil {
				t.clist(it.Body)
			}
			if it.Break {
				t.op(";;", true)
			}
		}
		t.depth--
		t.res("esac", false)
	case "if":
		t.res("if", true)
		t.body(c.Cond)
		t.res("then", true)
		t.body(c.Body)
		for _, e := range c.Elifs {
			t.res("elif", true)
			t.body(e.Cond)
			t.res("then", true)
			t.body(e.Body)
		}
		if c.Else != nil {
			t.res("else", true)
			t.body(c.Else)
		}
		t.res("fi", false)
	case "while", "until":
		t.res(c.K, true)
		t.body(c.Cond)
		t.res("do", true)
		t.body(c.Body)
		t.res("done", false)
	case "func":
		t.emit(Tok{Text: c.Var, Kind: TWord, CmdPos: true}) // lexically a command-name word
		t.op("(", false)
		t.op(")", true)
		t.cmd(c.FBody)
		return
	default:
		panic("gen: unknown command kind " + c.K)
	}
	for _, r := range c.Redirs {
		t.redir(r)
	}
}

// ---- word text

func WordText(w *Word) string {
	if w == nil {
		return ""
	}
	var b strings.Builder
	for _, p := range w.Parts {
		b.WriteString(partText(p))
	}
	return b.String()
}

func partsText(ps []Part) string {
	var b strings.Builder
	for _, p := range ps {
		b.WriteString(partText(p))
	}
	return b.String()
}

func atomsText(as []Atom) string {
	var b strings.Builder
	for _, a := range as {
		if a.Space {
			b.WriteByte(' ')
		}
		b.WriteString(partText(a.P))
	}
	return b.String()
}

// NestedText renders a compound list inside $( ) / ` ` with the canonical layout.
func NestedText(cl *CList) string {
	t := &tokenizer{pending: [][]*Heredoc{nil}, depth: 1}
	t.clist(cl)
	if len(t.pending[0]) > 0 {
		t.newline(false)
	}
	r := Join(t.toks, nil)
	return r.Text
}

func partText(p Part) string {
	switch p.K {
	case "lit":
		return p.S
	case "sq":
		return "'" + p.S + "'"
	case "dq":
		return `"` + partsText(p.Sub) + `"`
	case "esc":
		return `\` + p.S
	case "param":
		switch {
		case p.Op == "len":
			return "${#" + p.S + "}"
		case p.Op != "":
			return "${" + p.S + p.Op + WordText(p.W) + "}"
		case p.Braces:
			return "${" + p.S + "}"
		}
		return "$" + p.S
	case "cmdsub":
		s := NestedText(p.List)
		if strings.HasPrefix(s, "(") {
			s = " " + s
		}
		return "$(" + s + ")"
	case "bq":
		return "`" + NestedText(p.List) + "`"
	case "arith":
		return "$((" + atomsText(p.Expr) + "))"
	}
	panic("gen: unknown part kind " + p.K)
}

// ---- joining tokens into text

func wordish(k TokKind) bool {
	return k == TWord || k == TAssign || k == TRes || k == TIONum
}

func allDigits(s string) bool {
	if s == "" {
		return false
	}
	for _, r := range s {
		if r < '0' || r > '9' {
			return false
		}
	}
	return true
}

func isRedirOp(s string) bool {
	switch s {
	case "<", ">", ">|", ">>", "<<", "<<-", "<&", ">&", "<>":
		return true
	}
	return false
}

// NeedBlank reports whether a blank is required between two adjacent tokens.
func NeedBlank(a, b Tok) bool {
	if a.Kind == TNewline || a.Kind == THereBody || b.Kind == TNewline || b.Kind == THereBody {
		return false
	}
	switch {
	case wordish(a.Kind) && wordish(b.Kind):
		return true
	case wordish(a.Kind) && b.Kind == TArith, a.Kind == TArith && wordish(b.Kind):
		return true
	case strings.HasSuffix(a.Text, "(") && strings.HasPrefix(b.Text, "("):
		return true
	case a.Kind == TOp && a.Text == "<<" && strings.HasPrefix(b.Text, "-"):
		return true // "<<" "-E" must not become "<<-"
	case a.Kind == TWord && allDigits(a.Text) && b.Kind == TOp && isRedirOp(b.Text):
		return true
	case a.Kind == TOp && b.Kind == TOp && a.Text != ")" && b.Text != "(" && b.Text != ")":
		return true
	case a.Kind == TArith && b.Kind == TOp && b.Text == ")", a.Kind == TOp && a.Text == "(" && b.Kind == TArith:
		return true
	}
	return false
}

// Gap describes the boundary after token I for a layout policy.
type Gap struct {
	I        int
	A, B     Tok // B is the zero Tok at the end of input
	Last     bool
	Required bool // a blank is required
	Glue     bool // nothing may be inserted
}

// Policy decides the text of every gap.  It returns the text to insert; the
// joiner guarantees nothing itself, so policies must honour Required/Glue (the
// helper Canon does).
type Policy func(g Gap) string

// Canon is the canonical gap text: one blank between tokens (none around
// newlines, none where glued).
func Canon(g Gap) string {
	switch {
	case g.Glue, g.Last:
		return ""
	case g.A.Kind == TNewline || g.A.Kind == THereBody || g.B.Kind == TNewline || g.B.Kind == THereBody:
		return ""
	}
	return " "
}

// Tight omits every optional blank.
func Tight(g Gap) string {
	if g.Required {
		return " "
	}
	return ""
}

// Rendered is the text with its token map.
type Rendered struct {
	Text string
	Toks []Tok
	Gaps []string // gap text after each token
}

// Join builds the text from tokens and a policy (nil = Canon).
func Join(toks []Tok, pol Policy) *Rendered {
	if pol == nil {
		pol = Canon
	}
	r := &Rendered{Toks: append([]Tok(nil), toks...)}
	var b strings.Builder
	line, col := 1, 1
	adv := func(s string) {
		for _, ch := range s {
			if ch == '\n' {
				line++
				col = 1
			} else {
				col++
			}
		}
	}
	for i := range r.Toks {
		t := &r.Toks[i]
		t.Off, t.Line, t.Col = b.Len(), line, col
		b.WriteString(t.Text)
		adv(t.Text)
		g := Gap{I: i, A: *t, Last: i == len(r.Toks)-1, Glue: t.Glue}
		if !g.Last {
			g.B = r.Toks[i+1]
			g.Required = NeedBlank(g.A, g.B)
		}
		s := pol(g)
		r.Gaps = append(r.Gaps, s)
		b.WriteString(s)
		adv(s)
	}
	r.Text = b.String()
	return r
}

// RuneLen is the number of runes of the text.
func (r *Rendered) RuneLen() int { return utf8.RuneCountInString(r.Text) }
