// Package gen is a grammar-directed generator of shell programs.  Its primary
// output is its own derivation tree (types private to the harness); source text,
// a token map and the expected position-free skeleton are all derived from that
// tree, never from go.sh.
package gen

// Part is a word part.
type Part struct {
	K      string `json:"k"`           // lit | sq | dq | esc | param | cmdsub | bq | arith
	S      string `json:"s,omitempty"` // lit/sq text, escaped character, parameter name
	Sub    []Part `json:"sub,omitempty"`
	Braces bool   `json:"braces,omitempty"`
	Op     string `json:"op,omitempty"` // parameter operator; "len" for ${#x}
	W      *Word  `json:"w,omitempty"`  // word of the parameter operator
	List   *CList `json:"list,omitempty"`
	Expr   []Atom `json:"expr,omitempty"` // arithmetic expansion
}

// Atom is a piece of an arithmetic expression: a non-blank literal run or a
// quote/expansion, optionally preceded by a blank.
type Atom struct {
	Space bool `json:"space,omitempty"`
	P     Part `json:"p"`
}

type Word struct {
	Parts []Part `json:"parts"`
}

type Heredoc struct {
	Dash      bool     `json:"dash,omitempty"`
	Delim     *Word    `json:"delim"`      // the word written after the operator
	DelimText string   `json:"delim_text"` // after quote removal
	Quoted    bool     `json:"quoted,omitempty"`
	Lines     [][]Part `json:"lines"`               // body lines (without the newline); parts are lit only when Quoted
	TabTerm   bool     `json:"tab_term,omitempty"`  // <<- : terminator line indented with a tab
	MoreTabs  int      `json:"more_tabs,omitempty"` // ... and with this many further tabs
	// ContTerm k > 0 (unquoted delimiters only): the terminator line is written with a
	// backslash-newline after its k-th character (after the last one: an empty line follows)
	ContTerm int `json:"cont_term,omitempty"`
}

type Redir struct {
	N  string   `json:"n,omitempty"`
	Op string   `json:"op"`
	W  *Word    `json:"w"`
	HD *Heredoc `json:"hd,omitempty"`
}

type Assign struct {
	Name string `json:"name"`
	W    *Word  `json:"w"`
}

// Item is an element of a simple command's prefix or suffix.
type Item struct {
	A *Assign `json:"a,omitempty"`
	R *Redir  `json:"r,omitempty"`
	W *Word   `json:"w,omitempty"`
}

type CaseItem struct {
	Lparen bool    `json:"lparen,omitempty"`
	Pats   []*Word `json:"pats"`
	Body   *CList  `json:"body,omitempty"`
	Break  bool    `json:"break"`
}

type Elif struct {
	Cond *CList `json:"cond"`
	Body *CList `json:"body"`
}

type Cmd struct {
	K      string      `json:"k"` // simple subshell group arith for case if while until func
	Pre    []Item      `json:"pre,omitempty"`
	Name   *Word       `json:"name,omitempty"` // command word of a simple command
	Post   []Item      `json:"post,omitempty"`
	Body   *CList      `json:"body,omitempty"`
	Cond   *CList      `json:"cond,omitempty"`
	Redirs []*Redir    `json:"redirs,omitempty"`
	Var    string      `json:"var,omitempty"` // for variable / function name
	HasIn  bool        `json:"has_in,omitempty"`
	Items  []*Word     `json:"items,omitempty"`
	ForSep string      `json:"for_sep,omitempty"` // ";" | "\n" | "" (for x do)
	Word   *Word       `json:"word,omitempty"`    // case word
	Cases  []*CaseItem `json:"cases,omitempty"`
	Elifs  []Elif      `json:"elifs,omitempty"`
	Else   *CList      `json:"else,omitempty"`
	FBody  *Cmd        `json:"fbody,omitempty"`
	Expr   []Atom      `json:"expr,omitempty"` // (( ))
}

type Pipeline struct {
	Bang bool   `json:"bang,omitempty"`
	Cmds []*Cmd `json:"cmds"`
	NLs  []bool `json:"nls,omitempty"` // NLs[i]: a newline follows the i-th "|" (linebreak)
}

type AOItem struct {
	Op string    `json:"op"`
	NL bool      `json:"nl,omitempty"` // a newline follows the operator (linebreak)
	P  *Pipeline `json:"p"`
}

type AndOr struct {
	First *Pipeline `json:"first"`
	Rest  []AOItem  `json:"rest,omitempty"`
	Sep   string    `json:"sep,omitempty"` // "" | ";" | "&"
	NL    bool      `json:"nl,omitempty"`  // followed by a newline (compound lists only)
}

// CList is a compound list, or (Top) the list of a complete command.
type CList struct {
	Items  []*AndOr `json:"items"`
	Top    bool     `json:"top,omitempty"`
	LeadNL bool     `json:"lead_nl,omitempty"` // a newline follows the opening token (linebreak before the first command)
}

// Program is one complete command.
type Program struct {
	List *CList `json:"list"`
}

func Lit(s string) Part     { return Part{K: "lit", S: s} }
func W(parts ...Part) *Word { return &Word{Parts: parts} }
func LW(s string) *Word     { return W(Lit(s)) }
func Simple(words ...string) *Cmd {
	c := &Cmd{K: "simple", Name: LW(words[0])}
	for _, w := range words[1:] {
		c.Post = append(c.Post, Item{W: LW(w)})
	}
	return c
}
func Pipe(cmds ...*Cmd) *Pipeline { return &Pipeline{Cmds: cmds} }
func AO(p *Pipeline) *AndOr       { return &AndOr{First: p} }
func List1(c *Cmd, sep string, nl bool) *CList {
	return &CList{Items: []*AndOr{{First: Pipe(c), Sep: sep, NL: nl}}}
}
