// Package refexp is a table-driven reference model of POSIX parameter
// expansion (XCU 2.5.2, 2.6.2) composed with the reference field splitter.
// A case describes one expansion `${p<op>word}` (or `$p`) in a given quoting
// context and environment; the model yields the resulting fields, whether an
// error is raised, and the variable store afterwards.
package refexp

import (
	"fmt"
	"strconv"
	"strings"
	"unicode/utf8"

	"verif/refpat"
	"verif/refsplit"
)

// WP is one part of the word of ${p<op>word}.
type WP struct {
	Kind string `json:"kind"` // lit | sq | dq | var | assign | arith
	Text string `json:"text"` // literal text / variable name
}

type Case struct {
	Param   string   `json:"param"`  // v | 1 | 2 | 10 | @ | * | # | ? | - | $ | ! | 0
	Set     bool     `json:"set"`    // for v: whether it is set (positional: decided by Args)
	Value   string   `json:"value"`  // for v: its value
	Op      string   `json:"op"`     // "" | :- - := = :? ? :+ + | len | % %% # ##
	Braces  bool     `json:"braces"` // ${p} vs $p (only meaningful with Op == "")
	Word    []WP     `json:"word"`
	DQ      bool     `json:"dq"` // the whole expansion stands inside double quotes
	NoUnset bool     `json:"nounset"`
	IFS     string   `json:"ifs"`
	IFSSet  bool     `json:"ifs_set"`
	Args    []string `json:"args"`        // positional parameters $1...
	Opts    string   `json:"opts"`        // value of $-
	Glob    bool     `json:"glob"`        // pathname expansion is on (the f option is off); the check runs in an empty directory
	EmptyN0 bool     `json:"empty_name0"` // $0 is the empty string
	InArith bool     `json:"in_arith"`    // the plain expansion stands inside $(( ... + 0 ))
	// ArithGlue (with InArith, for $1 $2 and specials written without braces): a digit 0
	// follows the parameter directly, $(($10+0)) — the name ends after one character
	ArithGlue bool   `json:"arith_glue,omitempty"`
	Other     string `json:"other"` // value of the variable o used by WP{var}
	Pid       int    `json:"-"`
	Name0     string `json:"name0"`
}

type Outcome struct {
	Fields []string
	Err    string            // "" | unset | assign | indicate
	Store  map[string]string // v, y, z (only those set)
	Skip   string            // non-empty: gray zone, not judged
	// for Err == "indicate": HasWord tells whether a word was written after the
	// ? (an omitted word asks for a message of the implementation's own); Msg is
	// the expansion of the word, judged when MsgOK (it gave at most one field)
	HasWord, MsgOK bool
	Msg            string
	UsedWord       bool
}

type field []refsplit.Seg

type model struct {
	c     *Case
	store map[string]string
	err   string
	skip  string
	// the message of ${x?word}
	hasWord, msgOK bool
	msg            string
}

func (m *model) ifsFirst() string {
	if !m.c.IFSSet {
		return " "
	}
	if m.c.IFS == "" {
		return ""
	}
	_, w := utf8.DecodeRuneInString(m.c.IFS)
	return m.c.IFS[:w]
}

// lookup returns (values, set, null) of a parameter.  For @ the values are
// the positional parameters; for everything else a single value.
func (m *model) lookup(p string) (vals []string, set, null bool) {
	c := m.c
	switch p {
	case "@", "*":
		// with one positional parameter $@ / $* are null exactly when it is (bash and
		// dash agree); without any, both shells call them null for the colon forms
		return append([]string(nil), c.Args...), true, len(c.Args) == 0 || (len(c.Args) == 1 && c.Args[0] == "")
	case "#":
		return []string{strconv.Itoa(len(c.Args))}, true, false
	case "?":
		return []string{"0"}, true, false
	case "-":
		// always set (bash and dash agree), null when no option letter applies
		return []string{c.Opts}, true, c.Opts == ""
	case "$":
		return []string{strconv.Itoa(c.Pid)}, true, false
	case "!":
		return nil, false, true
	case "0":
		return []string{c.Name0}, true, c.Name0 == ""
	}
	if n, err := strconv.Atoi(p); err == nil {
		if n >= 1 && n <= len(c.Args) {
			return []string{c.Args[n-1]}, true, c.Args[n-1] == ""
		}
		return nil, false, true
	}
	v, ok := m.store[p]
	if !ok {
		return nil, false, true
	}
	return []string{v}, true, v == ""
}

func isSpecialOrPositional(p string) bool {
	switch p {
	case "@", "*", "#", "?", "-", "$", "!", "0":
		return true
	}
	_, err := strconv.Atoi(p)
	return err == nil
}

// expandWord expands the word of the operator into pre-split fields.
func (m *model) expandWord(w []WP, dq bool) []field {
	cur := field{}
	for _, p := range w {
		switch p.Kind {
		case "lit":
			cur = append(cur, refsplit.Seg{Text: p.Text, Quoted: dq})
		case "sq":
			if dq {
				m.skip = "single quotes inside a double-quoted ${...} word (shells differ)"
			}
			cur = append(cur, refsplit.Seg{Text: p.Text, Quoted: true})
		case "dq":
			cur = append(cur, refsplit.Seg{Text: p.Text, Quoted: true})
		case "var":
			cur = append(cur, refsplit.Seg{Text: m.c.Other, Quoted: dq})
		case "assign":
			// ${y:=Y}
			if v, ok := m.store["y"]; !ok || v == "" {
				m.store["y"] = "Y"
			}
			cur = append(cur, refsplit.Seg{Text: m.store["y"], Quoted: dq})
		case "arith":
			// $((z=1))
			m.store["z"] = "1"
			cur = append(cur, refsplit.Seg{Text: "1", Quoted: dq})
		case "dqat":
			// "$@" inside the word: where a single field is wanted the positional
			// parameters are joined with the first character of IFS, all of it quoted
			cur = append(cur, refsplit.Seg{Text: strings.Join(m.c.Args, m.ifsFirst()), Quoted: true})
		}
	}
	return []field{cur}
}

func flat(fs []field) string {
	var b strings.Builder
	for _, f := range fs {
		for _, s := range f {
			b.WriteString(s.Text)
		}
	}
	return b.String()
}

// patternOf renders the word as a pattern: quoted text is literal.
func (m *model) patternOf(w []WP, dq bool) string {
	fs := m.expandWord(w, false)
	var b strings.Builder
	for _, f := range fs {
		for _, s := range f {
			if s.Quoted {
				for _, r := range s.Text {
					switch r {
					case '*', '?', '[', '\\', ']', '-', '!', '^', ':':
						// (the last four matter inside an unquoted bracket expression)
						b.WriteByte('\\')
					}
					b.WriteRune(r)
				}
			} else {
				b.WriteString(s.Text)
			}
		}
	}
	return b.String()
}

// Eval runs the model.
func Eval(c *Case, store map[string]string) Outcome {
	m := &model{c: c, store: map[string]string{}}
	for k, v := range store {
		m.store[k] = v
	}
	if c.Set {
		m.store["v"] = c.Value
	}
	var fields []field
	if c.InArith {
		// $((  $p + 0 )): the parameter is expanded first (an unset one is an error
		// under nounset, like anywhere else), then the text is evaluated
		vals, set, _ := m.lookup(c.Param)
		n := 0
		switch {
		case !set && c.NoUnset:
			m.err = "unset"
		case set && len(vals) > 0 && vals[0] != "":
			n, _ = strconv.Atoi(vals[0])
		}
		if c.ArithGlue && m.err == "" {
			// the digit continues the number the parameter stands for
			n *= 10
		}
		fields = []field{{{Text: strconv.Itoa(n), Quoted: c.DQ}}}
	} else {
		fields = m.expandParam()
	}
	out := Outcome{Err: m.err, Store: m.store, Skip: m.skip, HasWord: m.hasWord, MsgOK: m.msgOK, Msg: m.msg}
	if m.err != "" {
		return out
	}
	// field splitting of every pre-field; empty unquoted ones vanish.  Inside
	// double quotes every pre-field exists even when empty ("$@" with no
	// positional parameters produced no pre-field at all).
	for _, f := range fields {
		if c.DQ {
			f = append(f, refsplit.Seg{Text: "", Quoted: true})
		}
		out.Fields = append(out.Fields, refsplit.Split(f, c.IFS, c.IFSSet)...)
	}
	return out
}

func (m *model) expandParam() []field {
	c := m.c
	vals, set, null := m.lookup(c.Param)
	multi := c.Param == "@" || c.Param == "*"
	quoted := c.DQ
	valueFields := func() []field {
		switch c.Param {
		case "@":
			var fs []field
			for _, v := range vals {
				fs = append(fs, field{{Text: v, Quoted: quoted}})
			}
			return fs // zero fields when there are no positional parameters
		case "*":
			if quoted {
				return []field{{{Text: strings.Join(vals, m.ifsFirst()), Quoted: true}}}
			}
			var fs []field
			for _, v := range vals {
				fs = append(fs, field{{Text: v, Quoted: false}})
			}
			return fs
		}
		if len(vals) == 0 {
			return []field{{{Text: "", Quoted: quoted}}}
		}
		return []field{{{Text: vals[0], Quoted: quoted}}}
	}
	emptyField := func() []field { return []field{{{Text: "", Quoted: quoted}}} }
	unsetErr := func() []field {
		m.err = "unset"
		return nil
	}
	switch c.Op {
	case "":
		if !set && c.NoUnset && !multi {
			return unsetErr()
		}
		return valueFields()
	case "len":
		if c.Param == "*" && len(c.Args) > 0 {
			m.skip = "${#*} is unspecified by POSIX"
			return nil
		}
		if multi {
			return []field{{{Text: strconv.Itoa(len(c.Args)), Quoted: quoted}}}
		}
		if !set {
			if c.NoUnset {
				return unsetErr()
			}
			return []field{{{Text: "0", Quoted: quoted}}}
		}
		return []field{{{Text: strconv.Itoa(utf8.RuneCountInString(vals[0])), Quoted: quoted}}}
	}
	if multi {
		switch {
		case len(c.Args) >= 2 && c.Param == "*" && quoted && strings.HasPrefix(c.Op, ":") && strings.Join(c.Args, m.ifsFirst()) == "":
			// "$*" is one string: it is null when that string is empty (all
			// parameters empty and IFS empty; bash and dash agree)
			null = true
		case len(c.Args) >= 2:
			m.skip = "operator applied to $@ / $* with several positional parameters (beyond the pinned rows)"
			return nil
		case len(c.Args) == 0 && !strings.HasPrefix(c.Op, ":"):
			m.skip = "non-colon operator on $@ / $* without positional parameters (bash: unset, dash: null)"
			return nil
		}
	}
	colon := strings.HasPrefix(c.Op, ":")
	useWord := !set || (colon && null)
	switch strings.TrimPrefix(c.Op, ":") {
	case "-":
		if !useWord {
			return valueFields()
		}
		return m.expandWord(c.Word, quoted)
	case "=":
		if !useWord {
			return valueFields()
		}
		if isSpecialOrPositional(c.Param) {
			m.err = "assign"
			return nil
		}
		fs := m.expandWord(c.Word, quoted)
		if m.skip == "" && !quoted {
			// POSIX substitutes the *value of the parameter* after the assignment
			// (an unquoted expansion result), go.sh the expansion of w with w's own
			// quoting: the two differ only when w has quoted text that is empty or
			// holds IFS / pattern characters
			for _, f := range fs {
				for _, s := range f {
					if s.Quoted && (s.Text == "" || strings.ContainsAny(s.Text, " \t\n,:*?[\\")) {
						m.skip = "${x:=w} unquoted with quoted empty/IFS/pattern text in w (value-of-x vs expansion-of-w readings differ)"
					}
				}
			}
		}
		m.store[c.Param] = flat(fs)
		return fs
	case "?":
		if !useWord {
			return valueFields()
		}
		fs := m.expandWord(c.Word, quoted)
		m.err = "indicate"
		m.msgOK, m.msg = len(fs) <= 1, flat(fs)
		for _, wp := range c.Word {
			// (an empty literal writes nothing into the source)
			m.hasWord = m.hasWord || wp.Kind != "lit" || wp.Text != ""
		}
		return nil
	case "+":
		if useWord {
			return emptyField()
		}
		return m.expandWord(c.Word, quoted)
	case "%", "%%", "#", "##":
		// (no colon forms exist; c.Op is one of these four)
	}
	switch c.Op {
	case "%", "%%", "#", "##":
		if !set {
			if c.NoUnset {
				return unsetErr()
			}
			return emptyField()
		}
		if null {
			// nothing can be removed from a null value; whether the word is still expanded
			// differs between shells (bash: no, dash: yes)
			for _, p := range c.Word {
				if p.Kind == "assign" || p.Kind == "arith" {
					m.skip = "removal operator on a null parameter with a side-effecting word (shells differ)"
				}
			}
			return emptyField()
		}
		pat := m.patternOf(c.Word, quoted)
		pp := refpat.Parse(pat)
		if pp.Class != refpat.OK {
			m.skip = "malformed pattern in word"
			return nil
		}
		mode := refpat.Suffix
		if c.Op[0] == '#' {
			mode = refpat.Prefix
		}
		if len(c.Op) == 2 {
			mode |= refpat.Largest
		} else {
			mode |= refpat.Smallest
		}
		v := vals[0]
		if mt, ok := refpat.Remove([]*refpat.Pattern{pp}, mode, v); ok {
			if mode&refpat.Prefix != 0 {
				v = v[len(mt):]
			} else {
				v = v[:len(v)-len(mt)]
			}
		}
		return []field{{{Text: v, Quoted: quoted}}}
	}
	panic(fmt.Sprintf("refexp: unknown operator %q", c.Op))
}

// Source renders the case as shell source text for the word under test (the
// argument of a command).
func (c *Case) Source() string {
	var b strings.Builder
	if c.DQ {
		b.WriteByte('"')
	}
	if c.InArith {
		b.WriteString("$((")
	}
	switch {
	case c.Op == "" && !c.Braces:
		b.WriteString("$" + c.Param)
	case c.Op == "":
		b.WriteString("${" + c.Param + "}")
	case c.Op == "len":
		b.WriteString("${#" + c.Param + "}")
	default:
		b.WriteString("${" + c.Param + c.Op)
		for _, p := range c.Word {
			switch p.Kind {
			case "lit":
				b.WriteString(p.Text)
			case "sq":
				b.WriteString("'" + p.Text + "'")
			case "dq":
				b.WriteString(`"` + strings.NewReplacer(`\`, `\\`, `"`, `\"`, "$", `\$`, "`", "\\`").Replace(p.Text) + `"`)
			case "var":
				b.WriteString("$o")
			case "assign":
				b.WriteString("${y:=Y}")
			case "arith":
				b.WriteString("$((z=1))")
			case "dqat":
				b.WriteString(`"$@"`)
			}
		}
		b.WriteByte('}')
	}
	if c.InArith && c.ArithGlue {
		b.WriteString("0")
	}
	if c.InArith {
		b.WriteString("+0))")
	}
	if c.DQ {
		b.WriteByte('"')
	}
	return b.String()
}
