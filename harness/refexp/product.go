package refexp

var Ops = []string{"", ":-", "-", ":=", "=", ":?", "?", ":+", "+", "len", "%", "%%", "#", "##"}
var Values = []string{"abc", "a b", "a,b:c", "x*y", "日本語", "foo/bar/baz", " lead", "trail,", `a\b\c`, "bz", "]z", "-z", "!z", "a]", "z"}
var IFSs = []struct {
	V   string
	Set bool
}{{"", false}, {" \t\n", true}, {", ", true}, {":", true}, {"", true}, {"、 ", true}, {"*", true}}

func Words(op string, value string) [][]WP {
	switch op {
	case "", "len":
		return [][]WP{nil}
	case "%", "%%", "#", "##":
		ws := [][]WP{
			{}, {{Kind: "lit", Text: "*"}}, {{Kind: "lit", Text: "?"}}, {{Kind: "sq", Text: "*"}}, {{Kind: "dq", Text: "?"}},
			{{Kind: "lit", Text: "/*"}}, {{Kind: "lit", Text: "*/"}}, {{Kind: "lit", Text: "[a-c]"}}, {{Kind: "lit", Text: "[!a]*"}},
			{{Kind: "var"}}, {{Kind: "lit", Text: "*"}, {Kind: "sq", Text: "*"}},
			{{Kind: "assign"}}, {{Kind: "arith"}}, {{Kind: "lit", Text: "*"}, {Kind: "assign"}},
			// quoted characters inside an unquoted bracket expression are ordinary members
			{{Kind: "lit", Text: "[a"}, {Kind: "dq", Text: "-"}, {Kind: "lit", Text: "c]"}}, {{Kind: "lit", Text: "["}, {Kind: "sq", Text: "!"}, {Kind: "lit", Text: "a]"}},
			{{Kind: "lit", Text: "[a"}, {Kind: "sq", Text: "]"}, {Kind: "lit", Text: "b]"}}, {{Kind: "lit", Text: "["}, {Kind: "dq", Text: "^"}, {Kind: "lit", Text: "a]"}},
			{{Kind: "lit", Text: "[!"}, {Kind: "sq", Text: "!"}, {Kind: "lit", Text: "]"}},
			// "$@" joined into one pattern: the separator is quoted text as well
			{{Kind: "dqat"}}, {{Kind: "lit", Text: "?"}, {Kind: "dqat"}},
			{{Kind: "lit", Text: "[["}, {Kind: "sq", Text: ":"}, {Kind: "lit", Text: "alpha:]]"}}, {{Kind: "lit", Text: "[["}, {Kind: "dq", Text: ":"}, {Kind: "lit", Text: "z:]"}},
			// a quoted backslash is an ordinary character of the pattern
			{{Kind: "sq", Text: `\`}, {Kind: "lit", Text: "*"}}, {{Kind: "lit", Text: "*"}, {Kind: "sq", Text: `\c`}}, {{Kind: "lit", Text: "*"}, {Kind: "dq", Text: `\`}}, {{Kind: "sq", Text: `a\`}},
		}
		rs := []rune(value)
		if len(rs) >= 2 {
			ws = append(ws, []WP{{Kind: "lit", Text: string(rs[:1]) + "*"}}, []WP{{Kind: "lit", Text: "*" + string(rs[len(rs)-1:])}},
				[]WP{{Kind: "sq", Text: string(rs[:2])}}, []WP{{Kind: "dq", Text: string(rs[len(rs)-2:])}})
		}
		return ws
	}
	return [][]WP{
		{}, {{Kind: "lit", Text: "w"}}, {{Kind: "lit", Text: "a b"}}, {{Kind: "sq", Text: "a b"}}, {{Kind: "dq", Text: "a  b"}},
		{{Kind: "var"}}, {{Kind: "assign"}}, {{Kind: "arith"}},
		{{Kind: "lit", Text: "p "}, {Kind: "sq", Text: " q"}}, {{Kind: "lit", Text: "a,b"}}, {{Kind: "dq", Text: ""}}, {{Kind: "lit", Text: "é*"}},
		{{Kind: "var"}, {Kind: "dq", Text: "c d"}, {Kind: "assign"}},
	}
}

type Param struct {
	Name  string
	Set   bool
	Value string
	Args  []string
	Glob  bool // run with the f option off
	Empty bool // $0 empty
}

func Params() []Param {
	var ps []Param
	ps = append(ps, Param{Name: "v"}, Param{Name: "v", Set: true})
	for _, v := range Values {
		ps = append(ps, Param{Name: "v", Set: true, Value: v, Args: []string{"p1"}})
	}
	for _, n := range []string{"1", "2", "10"} {
		ps = append(ps,
			Param{Name: n}, Param{Name: n, Args: []string{"one"}}, Param{Name: n, Args: []string{"", ""}},
			Param{Name: n, Args: []string{"a b", "x*y"}},
			Param{Name: n, Args: []string{"1", "2", "3", "4", "5", "6", "7", "8", "9", "ten,10"}},
			Param{Name: n, Args: []string{"1", "2", "3", "4", "5", "6", "7", "8", "9", ""}})
	}
	// positional parameters written with leading zeros are decimal all the same
	for _, n := range []string{"08", "010", "09"} {
		ps = append(ps, Param{Name: n}, Param{Name: n, Args: []string{"1", "2", "3", "4", "5", "6", "7", "8", "9", "ten,10"}},
			Param{Name: n, Args: []string{"1", "2", "3", "4", "5", "6", "7", "", "9", ""}})
	}
	for _, n := range []string{"@", "*"} {
		ps = append(ps, Param{Name: n}, Param{Name: n, Args: []string{""}}, Param{Name: n, Args: []string{"one"}},
			Param{Name: n, Args: []string{"a", "bc"}}, Param{Name: n, Args: []string{"", "2", ""}}, Param{Name: n, Args: []string{"", ""}}, Param{Name: n, Args: []string{"a b", "c,d", "e:f"}})
	}
	for _, n := range []string{"#", "?", "-", "$", "!", "0"} {
		ps = append(ps, Param{Name: n}, Param{Name: n, Args: []string{"a", "b"}})
	}
	ps = append(ps, Param{Name: "v", Set: true, Value: "xaZZb", Args: []string{"a", "b"}}, Param{Name: "v", Set: true, Value: "xa*b", Args: []string{"a", "b"}})
	// $- without any option letter and an empty $0: set but null
	ps = append(ps, Param{Name: "-", Glob: true}, Param{Name: "0", Empty: true}, Param{Name: "v", Set: true, Value: "abc", Glob: true})
	return ps
}

func Product(f func(cs Case)) {
	for _, p := range Params() {
		for _, op := range Ops {
			if p.Name == "#" && op != "" && op != "len" {
				continue // ${#<op>...} is lexically ambiguous with the length form
			}
			for _, w := range Words(op, p.Value) {
				for _, dq := range []bool{false, true} {
					for _, nu := range []bool{false, true} {
						for _, ifs := range IFSs {
							for _, br := range []bool{false, true} {
								if op != "" && br {
									continue
								}
								if op == "" && !br && len(p.Name) > 1 && p.Name[0] >= '0' && p.Name[0] <= '9' {
									continue // $10 is $1 followed by 0
								}
								var cs Case
								cs.Param, cs.Set, cs.Value, cs.Args = p.Name, p.Set, p.Value, p.Args
								cs.Glob, cs.EmptyN0 = p.Glob, p.Empty
								cs.Op, cs.Braces, cs.Word, cs.DQ, cs.NoUnset = op, br, w, dq, nu
								cs.IFS, cs.IFSSet = ifs.V, ifs.Set
								cs.Other = "o1 o2"
								f(cs)
							}
						}
					}
				}
			}
		}
	}
}
