package props

import (
	"bytes"
	"errors"
	"fmt"
	"github.com/hattya/go.sh/interp"
	"github.com/hattya/go.sh/parser"
	"io"
	"math/rand/v2"
	"strings"

	"github.com/hattya/go.sh/ast"
	"github.com/hattya/go.sh/printer"

	"verif/core"
	"verif/gen"
	"verif/skel"
)

// C05 — print then parse gives back the same program under every Config.
// C18 — printing is idempotent / deterministic, leaves the tree untouched and
//       reports writer errors.

type prCase struct {
	Prog   *gen.Program `json:"prog,omitempty"`
	Src    string       `json:"src,omitempty"`
	Layout int          `json:"layout"`
	Seed   uint64       `json:"seed"`
	Cfgs   []int        `json:"cfgs,omitempty"` // nil = all 256
	Kind   string       `json:"kind"`
	// Aliases: the source is parsed with this alias table (positions are frozen
	// during substitution, so the tree's line information is unusual)
	Aliases map[string]string `json:"aliases,omitempty"`
}

func prParse(cs prCase, name, src string) ([]ast.Command, []*ast.Comment, error) {
	if len(cs.Aliases) == 0 {
		return parseAll(name, src)
	}
	env := interp.NewExecEnv("sh")
	for k, v := range cs.Aliases {
		env.Aliases[k] = v
	}
	return parser.ParseCommands(env, name, src)
}

// cfgOf maps 0..255 to a printer.Config.
func cfgOf(i int) printer.Config {
	var c printer.Config
	if i&1 == 0 {
		c.Indent = printer.Tab
	} else {
		c.Indent = printer.Space
	}
	if i&2 == 0 {
		c.Width = 2
	} else {
		c.Width = 4
	}
	if i&4 == 0 {
		c.Redir = printer.After
	} else {
		c.Redir = printer.Before
	}
	if i&8 != 0 {
		c.Redir |= printer.Space
	}
	if i&16 == 0 {
		c.Assign = printer.Before
	} else {
		c.Assign = printer.After
	}
	if i&32 != 0 {
		c.Do = printer.Newline
	}
	c.Case = i&64 != 0
	if i&128 != 0 {
		c.Then = printer.Newline
	}
	return c
}

func cfgName(i int) string {
	var s []string
	names := []string{"indent-space", "width4", "redir-before", "redir-space", "assign-after", "do-newline", "case-indent", "then-newline"}
	for b, n := range names {
		if i&(1<<b) != 0 {
			s = append(s, n)
		}
	}
	if len(s) == 0 {
		return "default"
	}
	return strings.Join(s, "+")
}

func prSource(cs prCase) string {
	if cs.Prog == nil {
		return cs.Src
	}
	var pol gen.Policy
	switch cs.Layout {
	case 0:
		pol = gen.Canon
	case 1:
		pol = gen.Tight
	default:
		pol, _ = layoutPolicy(randFor(cs.Seed, uint64(cs.Layout)), cs.Layout%2 == 1)
	}
	return gen.Join(gen.Tokens(cs.Prog, true), pol).Text
}

func printAll(cfg *printer.Config, cmds []ast.Command) (string, error) {
	var b bytes.Buffer
	for _, cmd := range cmds {
		if err := cfg.Fprint(&b, cmd); err != nil {
			return b.String(), err
		}
		b.WriteByte('\n')
	}
	return b.String(), nil
}

// heredocBodies lists the here-document bodies (with their delimiter lines) in
// tree order, rendered without the printer.
func heredocBodies(cmds []ast.Command) []string {
	var out []string
	var redir func(r *ast.Redir)
	redir = func(r *ast.Redir) {
		if r.Op == "<<" || r.Op == "<<-" {
			out = append(out, skel.Unparse(r.Heredoc)+"|"+skel.Unparse(r.Delim))
		}
	}
	walkRedirs(cmds, redir)
	return out
}

func prCfgs(cs prCase) []int {
	if cs.Cfgs != nil {
		return cs.Cfgs
	}
	all := make([]int, 256)
	for i := range all {
		all[i] = i
	}
	return all
}

func c05Exec(c *core.Ctx, cs prCase) {
	src := prSource(cs)
	cmds, _, err := prParse(cs, "c05", src)
	if err != nil || len(cmds) == 0 {
		c.Skip("source not accepted (C02's business)")
		return
	}
	if len(cs.Aliases) != 0 {
		src += fmt.Sprintf(" with aliases %v", cs.Aliases)
	}
	if cs.Prog != nil && skel.Cmds(cmds, skel.Strict) != gen.Expect(cs.Prog) {
		c.Skip("tree differs from the generator's expectation (C02's business)")
		return
	}
	want := skel.Cmds(cmds, skel.Normalised)
	wantHD := heredocBodies(cmds)
	texts := map[string]bool{}
	for _, ci := range prCfgs(cs) {
		cfg := cfgOf(ci)
		out, perr := printAll(&cfg, cmds)
		c.Eval(1)
		key := fmt.Sprintf("%s | config=%s", q(src), cfgName(ci))
		if perr != nil {
			c.Violation("print-error", key, "Fprint succeeds", perr.Error(), "")
			continue
		}
		texts[out] = true
		cmds2, _, err2 := parseAll("c05", out)
		if err2 != nil {
			c.Violation("printed-text-rejected", key, "the printed text parses", err2.Error(), "printed:\n"+out)
			continue
		}
		if got := skel.Cmds(cmds2, skel.Normalised); got != want {
			c.Violation("different-program", key, want, got, "printed:\n"+out)
			continue
		}
		if got := heredocBodies(cmds2); !sameStrings(got, wantHD) {
			c.Violation("heredoc-body", key, fmt.Sprintf("%q", wantHD), fmt.Sprintf("%q", got), "printed:\n"+out)
		}
		for b := 0; b < 8; b++ {
			if ci&(1<<b) != 0 {
				c.Count(fmt.Sprintf("config-bit/%d", b), 1)
			}
		}
	}
	if len(wantHD) > 0 {
		c.Count("programs-with-heredocs", 1)
	}
	c.Count("distinct-printed-texts", len(texts))
	c.Distinct(want)
	if c.Index()%211 == 0 {
		cfg := cfgOf(0)
		out, _ := printAll(&cfg, cmds)
		c.Sample(map[string]any{"source": src, "printed(default config)": out, "distinct_texts_over_configs": len(texts)})
	}
}

// ---- C18

type failingWriter struct {
	k    int
	n    int
	err  error
	hits int
	hook func()
}

func (w *failingWriter) Write(p []byte) (int, error) {
	if w.hook != nil {
		w.hook()
	}
	if w.n+len(p) <= w.k {
		w.n += len(p)
		return len(p), nil
	}
	acc := w.k - w.n
	w.n = w.k
	w.hits++
	return acc, w.err
}

// c18Abuse prints malformed trees (a Cmd without expression nested in groups, a
// word with a nil part) and swallows the panics, the way a defensive caller would.
func c18Abuse(cfg *printer.Config) {
	bad := &ast.Cmd{}
	inner := &ast.Cmd{Expr: &ast.Group{Lbrace: ast.NewPos(1, 1), List: []ast.Command{&ast.Cmd{Expr: &ast.SimpleCmd{Args: []ast.Word{{&ast.Lit{ValuePos: ast.NewPos(2, 2), Value: "a"}}}}}, bad}, Rbrace: ast.NewPos(4, 1)}}
	outer := &ast.Cmd{Expr: &ast.Group{Lbrace: ast.NewPos(1, 1), List: []ast.Command{inner}, Rbrace: ast.NewPos(5, 1)}}
	for _, n := range []ast.Node{outer, ast.Word{nil}, &ast.Cmd{Expr: &ast.Subshell{Lparen: ast.NewPos(1, 1), List: []ast.Command{bad}, Rparen: ast.NewPos(3, 1)}}} {
		func() {
			defer func() { _ = recover() }()
			_ = cfg.Fprint(io.Discard, n)
		}()
	}
}

func c18Exec(c *core.Ctx, cs prCase) {
	src := prSource(cs)
	cmds, _, err := prParse(cs, "c18", src)
	if len(cs.Aliases) != 0 {
		src += fmt.Sprintf(" with aliases %v", cs.Aliases)
	}
	if err != nil || len(cmds) == 0 {
		c.Skip("source not accepted (C02's business)")
		return
	}
	before := skel.Dump(cmds)
	for _, ci := range prCfgs(cs) {
		cfg := cfgOf(ci)
		key := fmt.Sprintf("%s | config=%s", q(src), cfgName(ci))
		t1, perr := printAll(&cfg, cmds)
		c.Eval(1)
		if perr != nil {
			c.Violation("print-error", key, "Fprint succeeds", perr.Error(), "")
			continue
		}
		if skel.Dump(cmds) != before {
			c.Violation("tree-modified", key, "the tree is unchanged after Fprint", "changed", firstDiff(before, skel.Dump(cmds)))
			return
		}
		if ci%16 == int(c.Index())%16 {
			// hostile interlude: a caller that recovered from Fprint panicking on a
			// hand-built malformed tree (outside the contract) must not influence the
			// next, well-formed call: no state survives between calls
			c18Abuse(&cfg)
			c.Count("abusive-interludes", 1)
		}
		t1b, _ := printAll(&cfg, cmds)
		if t1b != t1 {
			c.Violation("nondeterministic", key, t1, t1b, "printing the same tree twice gave different bytes")
		}
		cmds2, _, err2 := parseAll("c18", t1)
		if err2 != nil {
			// no fix-point without a second print: the normal form has to be a program
			c.Violation("not-a-fix-point", key, "the printed text is accepted and prints as itself", "the printed text is rejected: "+err2.Error(), t1)
			continue
		}
		if skel.Cmds(cmds2, skel.Normalised) != skel.Cmds(cmds, skel.Normalised) {
			// (which program it is, is C05's business; whether it prints as itself is judged below)
			c.Count("printed-text-is-a-different-program", 1)
		}
		t2, perr2 := printAll(&cfg, cmds2)
		c.Eval(1)
		if perr2 != nil || t2 != t1 {
			c.Violation("not-a-fix-point", key, t1, fmt.Sprintf("%s (err=%v)", t2, perr2), "")
		}
		c.Count("round-trips", 1)
	}
	// failing writers
	ks := func(n int) []int {
		if cs.Kind == "writer-all-k" {
			all := make([]int, n+1)
			for i := range all {
				all[i] = i
			}
			return all
		}
		return []int{0, 1, n / 2, n - 1, 4095, 4096, 4097}
	}
	for _, ci := range []int{0, 4, 32, 128, 4 | 32 | 128, 255, 36, 160} {
		if cs.Cfgs != nil && len(cs.Cfgs) < 8 {
			break
		}
		cfg := cfgOf(ci)
		full, _ := printAll(&cfg, cmds[:1])
		n := len(full) - 1 // without the newline printAll adds
		for _, k := range ks(n) {
			if k < 0 || k >= n {
				continue
			}
			inj := fmt.Errorf("injected write failure after %d bytes", k)
			sepEdited := false
			fw := &failingWriter{k: k, err: inj}
			fw.hook = func() {
				if !sepEdited && skel.Dump(cmds) != before {
					sepEdited = true
				}
			}
			var perr error
			func() {
				defer func() {
					if e := recover(); e != nil {
						perr = fmt.Errorf("panic: %v", e)
					}
				}()
				perr = cfg.Fprint(fw, cmds[0])
			}()
			c.Eval(1)
			c.Count("writer-faults-injected", 1)
			key := fmt.Sprintf("%s | config=%s | writer fails after %d of %d bytes", q(src), cfgName(ci), k, n)
			switch {
			case perr == nil:
				c.Violation("writer-error-lost", key, inj.Error(), "nil", "")
			case !errors.Is(perr, inj):
				c.Violation("writer-error-replaced", key, inj.Error(), perr.Error(), "")
			default:
				c.Count("writer-faults-reported", 1)
			}
			if sepEdited {
				c.Count("prints-observed-with-temporarily-edited-tree", 1)
			}
			if skel.Dump(cmds) != before {
				c.Violation("tree-modified", key, "the tree is unchanged after a failed Fprint", "changed", firstDiff(before, skel.Dump(cmds)))
				return
			}
		}
	}
	c.Distinct(src)
	if c.Index()%211 == 0 {
		c.Sample(map[string]any{"source": src})
	}
}

func firstDiff(a, b string) string {
	i := 0
	for i < len(a) && i < len(b) && a[i] == b[i] {
		i++
	}
	lo := max(0, i-60)
	return fmt.Sprintf("first difference at byte %d: %q vs %q", i, a[lo:min(len(a), i+60)], b[lo:min(len(b), i+60)])
}

// walkRedirs visits every redirection of the tree in source order.
func walkRedirs(cmds []ast.Command, f func(*ast.Redir)) {
	var command func(ast.Command)
	var word func(ast.Word)
	var cmd func(*ast.Cmd)
	word = func(w ast.Word) {
		for _, p := range w {
			switch p := p.(type) {
			case *ast.Quote:
				word(p.Value)
			case *ast.ParamExp:
				word(p.Word)
			case *ast.CmdSubst:
				for _, c := range p.List {
					command(c)
				}
			case *ast.ArithExp:
				word(p.Expr)
			}
		}
	}
	list := func(cs []ast.Command) {
		for _, c := range cs {
			command(c)
		}
	}
	cmd = func(c *ast.Cmd) {
		if c == nil {
			return
		}
		switch x := c.Expr.(type) {
		case *ast.SimpleCmd:
			// redirections and words interleave in the source; bodies follow in redirection order
			for _, a := range x.Assigns {
				word(a.Value)
			}
			for _, a := range x.Args {
				word(a)
			}
		case *ast.Subshell:
			list(x.List)
		case *ast.Group:
			list(x.List)
		case *ast.ArithEval:
			word(x.Expr)
		case *ast.ForClause:
			for _, w := range x.Items {
				word(w)
			}
			list(x.List)
		case *ast.CaseClause:
			word(x.Word)
			for _, it := range x.Items {
				for _, p := range it.Patterns {
					word(p)
				}
				list(it.List)
			}
		case *ast.IfClause:
			list(x.Cond)
			list(x.List)
			for _, e := range x.Else {
				switch e := e.(type) {
				case *ast.ElifClause:
					list(e.Cond)
					list(e.List)
				case *ast.ElseClause:
					list(e.List)
				}
			}
		case *ast.WhileClause:
			list(x.Cond)
			list(x.List)
		case *ast.UntilClause:
			list(x.Cond)
			list(x.List)
		case *ast.FuncDef:
			command(x.Body)
		}
		for _, r := range c.Redirs {
			word(r.Word)
			f(r)
		}
	}
	command = func(c ast.Command) {
		switch c := c.(type) {
		case ast.List:
			for _, ao := range c {
				command(ao)
			}
		case *ast.AndOrList:
			command(c.Pipeline)
			for _, x := range c.List {
				command(x.Pipeline)
			}
		case *ast.Pipeline:
			cmd(c.Cmd)
			for _, x := range c.List {
				cmd(x.Cmd)
			}
		case *ast.Cmd:
			cmd(c)
		}
	}
	list(cmds)
}

// prNestedHeredocs writes one command line that carries 1-3 here-documents
// (on one command, over a pipeline, an and-or list or a brace group); a body
// holds text, expansions and, while depth allows, a multi-line command
// substitution whose only line is built the same way.  Delimiters are unique.
func prNestedHeredocs(r *rand.Rand, depth int, ctr *int) string {
	m := 1 + r.IntN(3)
	var delims []string
	for j := 0; j < m; j++ {
		*ctr++
		delims = append(delims, fmt.Sprintf("D%d", *ctr))
	}
	var line strings.Builder
	form := r.IntN(4)
	if form == 3 {
		line.WriteString("{ ")
	}
	for j, d := range delims {
		op := "<<"
		if r.IntN(4) == 0 {
			op = "<<-"
		}
		switch {
		case j == 0:
			line.WriteString("cat " + op + d)
		case form == 0:
			line.WriteString(" " + op + d)
		case form == 1:
			line.WriteString(" | cat " + op + d)
		case form == 2:
			line.WriteString(" && cat " + op + d)
		default:
			line.WriteString("; cat " + op + d)
		}
	}
	if form == 3 {
		line.WriteString("; }")
	}
	line.WriteByte('\n')
	for _, d := range delims {
		for k := r.IntN(3); k > 0; k-- {
			switch x := r.IntN(6); {
			case x == 0:
				line.WriteString("text " + d + " x\n")
			case x == 1:
				line.WriteString("$x ${y:-z}\n")
			case x <= 3 && depth > 1:
				line.WriteString([]string{"", "pre "}[r.IntN(2)] + "$(\n" + prNestedHeredocs(r, depth-1, ctr) + ")" + []string{"", " post"}[r.IntN(2)] + "\n")
			case x == 4:
				line.WriteString("\n")
			default:
				line.WriteString("line\n")
			}
		}
		line.WriteString(d + "\n")
	}
	return line.String()
}

func prGen(kind string) func(c *core.Ctx) {
	return func(c *core.Ctx) {
		n := c.Pick(1500, 60000)
		for i := 0; i < n; i++ {
			r := c.Rand("prog", int64(i))
			p := genProgram(r, i)
			cs := prCase{Prog: p, Layout: i % 4, Seed: uint64(c.Seed)*104729 + uint64(i), Kind: "generated"}
			if kind == "c18" && i%4 == 0 {
				cs.Kind = "writer-all-k"
			}
			if kind == "c05" {
				core.Do(c, cs, c05Exec)
			} else {
				core.Do(c, cs, c18Exec)
			}
		}
		// programs that come out of alias substitution: all their tokens carry the
		// position of the alias word, so the tree looks like a one-liner
		for _, a := range []struct {
			src string
			al  map[string]string
		}{
			{"m\n", map[string]string{"m": "if a\nthen b\nfi"}}, {"m\n", map[string]string{"m": "if a\nthen b\nc\nelse d\ne\nfi"}},
			{"m\n", map[string]string{"m": "while a\ndo b\nc\ndone"}}, {"m\n", map[string]string{"m": "for i in x\ndo b\nc\ndone"}},
			{"m\n", map[string]string{"m": "{ a\nb\n}"}}, {"m\n", map[string]string{"m": "case x in\na) b\nc;;\nesac"}},
			{"m\n", map[string]string{"m": "(a\nb)"}}, {"m x\n", map[string]string{"m": "until a\nb\ndo c; done; echo"}},
			{"m\n", map[string]string{"m": "echo $(if a\nthen b\nfi)"}}, {"m\n", map[string]string{"m": "( if a\nthen b\nfi )"}}, {"m\n", map[string]string{"m": "{ while a\ndo b\ndone; }"}},
			{"m\n", map[string]string{"m": "f() { a\nb\n}"}}, {"m\n", map[string]string{"m": "if (a\nb) then c; fi"}},
			{"x\n", map[string]string{"x": "{ a\n}"}}, {"{ x }\n", map[string]string{"x": "a\n"}}, {"f() { x }\n", map[string]string{"x": "a\n"}}, {"x\n", map[string]string{"x": "{ (a) >f\n}"}},
			{"x\n", map[string]string{"x": "{ cat <<E\nbody\nE\n}"}}, {"x\n", map[string]string{"x": "echo $(cat <<E\nbody\nE\n)"}}, {"x\n", map[string]string{"x": "echo `cat <<E\nbody\nE\n`"}},
			{"m\n", map[string]string{"m": "(echo 'a\nb')"}}, {"m\n", map[string]string{"m": "{ echo \"a\nb\"; }"}}, {"m\n", map[string]string{"m": "if a; then echo 'a\nb'; fi"}},
			{"m\n", map[string]string{"m": "(echo $(a\nb))"}}, {"echo $(( $(m) ))\n", map[string]string{"m": "a\nb"}}, {"m\n", map[string]string{"m": "for x in ${y:-a\nb}; do c; done"}},
			{"m\n", map[string]string{"m": "case 'a\nb' in x) c;; esac"}}, {"m\n", map[string]string{"m": "while a >'f\ng'; do b; done"}}, {"m\n", map[string]string{"m": "echo $({ a\n})"}},
			{"m\n", map[string]string{"m": "if a; then b; fi"}}, {"m; n\n", map[string]string{"m": "a |\nb", "n": "c &&\nd"}},
			// one part of a construct cannot go on one line, the others can
			{"v\n", map[string]string{"v": "if a; then b; elif c \"x\ny\"; then d; fi"}}, {"v\n", map[string]string{"v": "if a; then b; elif {\nc\n}; then d; fi"}},
			{"v\n", map[string]string{"v": "if a; then b; elif c; then d 'x\ny'; fi"}}, {"v\n", map[string]string{"v": "if a; then b; else c \"x\ny\"; fi"}}, {"v\n", map[string]string{"v": "if a 'x\ny'; then b; elif c; then d; else e; fi"}},
			{"v\n", map[string]string{"v": "if a; then b; elif c; then d; elif e $(f\ng); then h; fi"}}, {"v\n", map[string]string{"v": "while a; b 'x\ny'; do c; done"}}, {"v\n", map[string]string{"v": "until a; do b; c \"x\ny\"; done"}},
			{"v\n", map[string]string{"v": "for i in a 'x\ny'; do b; done"}}, {"v\n", map[string]string{"v": "case x in a) b;; c) d 'x\ny';; esac"}}, {"v\n", map[string]string{"v": "case x in a) b;; 'x\ny') d;; esac"}}, {"v\n", map[string]string{"v": "f() { a; b 'x\ny'; }"}},
			{"v\n", map[string]string{"v": "{ a; } >'x\ny'"}}, {"v\n", map[string]string{"v": "a | b 'x\ny' | c"}}, {"v\n", map[string]string{"v": "a && b || c \"x\ny\""}}, {"v\n", map[string]string{"v": "( a; b ) 2>\"x\ny\""}},
			// arithmetic out of an alias value: parts that would be scanned differently without the blank between them
			{"m\n", map[string]string{"m": "(( $a 1 ))"}}, {"m\n", map[string]string{"m": "echo $(( $a b ))"}}, {"m\n", map[string]string{"m": "(( $ $(a) ))"}}, {"m\n", map[string]string{"m": "(( $ $a ))"}},
			{"m\n", map[string]string{"m": "(( $ ${a} ))"}}, {"m\n", map[string]string{"m": "(( $a+1 ))"}}, {"m\n", map[string]string{"m": "echo $(( ${a}1 $b _c $# 1 $1 0 ))"}}, {"m\n", map[string]string{"m": "(( 1 $ 2 ))"}},
			{"m\n", map[string]string{"m": "echo $(( $a $b )) $(( `a` 1 )) $(( $(a) b ))"}},
		} {
			cs := prCase{Src: a.src, Aliases: a.al, Kind: "alias-made"}
			if kind == "c05" {
				core.Do(c, cs, c05Exec)
			} else {
				core.Do(c, cs, c18Exec)
			}
		}
		// here-documents nested through command substitutions in here-document bodies,
		// several per command line on every level
		for i, n := 0, c.Pick(300, 20000); i < n; i++ {
			r := c.Rand("nested-hd", int64(i))
			ctr := 0
			cs := prCase{Src: prNestedHeredocs(r, 1+r.IntN(3), &ctr), Kind: "nested-heredocs"}
			if kind == "c05" {
				core.Do(c, cs, c05Exec)
			} else {
				if i%4 == 0 {
					cs.Kind = "writer-all-k"
				}
				core.Do(c, cs, c18Exec)
			}
		}
		// witnesses of the open finding "a lone backslash at the end of the input is written as it
		// stands, whatever the printer puts after it": one Config each (every key is listed)
		if kind == "c05" {
			for _, w := range []struct {
				src string
				cfg int
			}{{">f a \\", 0}, {"cat >\\", 4}, {"cat <<\\", 0}, {">f a=\\", 0}} {
				core.Do(c, prCase{Src: w.src, Cfgs: []int{w.cfg}, Kind: "witness"}, c05Exec)
			}
		}
		// dedicated shapes, written as source
		for _, s := range prDedicated {
			cs := prCase{Src: s, Kind: "dedicated"}
			if kind == "c05" {
				core.Do(c, cs, c05Exec)
			} else {
				cs.Kind = "writer-all-k"
				core.Do(c, cs, c18Exec)
			}
		}
		if kind == "c18" {
			// an output longer than bufio's 4096-byte buffer: a write fails in mid-stream
			r := c.Rand("big", 0)
			p := gen.New(r, gen.Options{Budget: 400, Heredocs: true}).Program()
			core.Do(c, prCase{Prog: p, Layout: 0, Cfgs: []int{0, 36, 128, 160, 164, 255, 4, 32}, Kind: "big"}, c18Exec)
		}
	}
}

var prDedicated = []string{
	"( (a) )\n", "( (a); b )\n", "echo $( (a) )\n", "( ( (a) ) )\n", "((1)); (a)\n", "{ (a); }\n",
	"if a <<E; then b; fi\nx\nE\n", "if a\nthen b <<E\nx\nE\nfi\n", "while a <<E; do b; done\nx\nE\n", "while a\ndo b <<E\nx\nE\ndone\n",
	"for x in a; do b <<E; done\nx\nE\n", "for x in a\ndo\nb <<E\nx\nE\nc\ndone\n", "case x in a) b <<E ;; esac\nx\nE\n", "case x in\na) b <<E\nx\nE\n;;\nesac\n",
	"( a <<E )\nx\nE\n", "(\na <<E\nx\nE\n)\n", "{ a <<E; }\nx\nE\n", "f() { a <<E\nx\nE\n}\n", "a <<E | b <<F\nx\nE\ny\nF\n", "a <<E <<F\nx\nE\ny\nF\n",
	"echo $(cat <<E\nx\nE\n)\n", "a <<E && b\nx\nE\n", "a <<E; b <<F\nx\nE\ny\nF\n",
	"if a; then b & fi\n", "if a &\nthen b; fi\n", "while a &\ndo b; done\n", "if a; b &\nthen c\nfi\n", "until a; do b; done\n",
	"case x in esac\n", "case x in a) ;; b) ;; esac\n", "case x in\na|b) c\nesac\n", "for x do a; done\n", "for x\ndo a\ndone\n", "for x in; do a; done\n",
	"a=1 b=2 c >f 2>&1 <g\n", ">f a\n", "a() { b; } >f\n", "! a | b && c || d &\n", "\\é 'a b' \"$x\" ${y:-z} $(c) `d` $((1 + 2))\n",
	// substitutions that span lines, also inside here-document bodies and double quotes
	"cat <<E\n$((\n+2)) x\nE\n", "cat <<E\n$(a\nb) x\nE\n", "cat <<E; c <<F\n`a\nb`\nE\n$((1 +\n2))\nF\n", "echo $((\n1 +\n2))\n", "echo \"$(a\nb) $((\n1))\"\n",
	"a <<E || b && ! { c\n$((\n+2))\nE\n}\n", "a <<E | { b\n$(c\nd)\nE\n}\n", "a <<E && (b\n$((\n1))\nE\n)\n",
	// a here-document line that continues with a multi-line substitution / arithmetic command
	"cat <<E; echo $(\n\ta\n)\nbody\nE\n", "cat <<E | tee `\n\ta\n`\nbody\nE\n", "cat <<E $(\n\ta\n)\nbody\nE\n", "x=$(\n\ta\n) cat <<E\nbody\nE\n",
	"cat <<E; ((\n1\n))\nbody\nE\n", "cat <<E; echo $((\n1\n))\nbody\nE\n", "cat <<E $((\n1 +\n2))\nbody\nE\n",
	// arithmetic text is kept character for character, whatever its parentheses look like
	"(( ) ) ((a))\n", "(()a)((1))\n", "echo $(( 1 ) ) ((2))\n", "(((1)) ); ((2))\n", "(( 1 ) + ( 2 ))\n",
	"(( (1) + ((a)) ))\n", "(( ((a)) ))\n", "echo $(( (1) )) ((2))\n", "(( ((1)) )); ((2))\n", "(( ( 1 ) + ( 2 ) ))\n", "echo $(( ((1)) + ((2)) ))$(( (3) ))\n",
	// "((" is the arithmetic command at every depth: a subshell or $( ) that starts with one is written with a blank
	"( ((1)) )\n", "( ((1)) | a )\n", "x=$( ((1)))\n", "echo `((1))` $( ((2)); b )\n", "( ! ((1)) )\n", "( ( ((1)) ) )\n", "( ((1)); ((2)) ) >f\n", "f() ( ((1)) )\n",
	"( case x in a ) ;; esac ) ; ((1))\n", "( case x in a) ((1)) ;; (b) ( ((2)) ) ;; esac; ((3)) )\n", "( (( $( (a) ) + $( ((1)) ) )) )\n",
	// the empty delimiter: an empty line ends the body
	"cat <<''\nx\n\n", "cat <<\"\"\n\n", "cat <<-''\n\tx\n\t\n", "cat <<'' <<E\na\\\n\n\nE\n", "( cat <<''\n$x\n\n)\n", "echo $(cat <<''\nx\n\n)\n", "if cat <<''; then b; fi\nx\n\n",
	// after a redirection the next word is an ordinary command name, even if it spells a reserved word
	">f if\n", ">f ! a\n", "<f { a\n", ">f for\n", "2>&1 while x\n", ">f case\n", "<<E done\nbody\nE\n", ">f then b | >g fi\n", "x=1 >f do\n", ">f x=1 }\n",
	// delimiters and patterns that need care when they are written back
	"cat << -E\nx\n-E\n", "cat <<- -E\n\tx\n\t-E\n", "case x in (esac) a;; esac\n", "case x in (esac|b) a;; (c) ;; esac\n", "case esac in (a) b;; esac\n",
	"a <<E\n$(b <<F\nx\nF\n)\nE\n", "{ a <<E\n$((\n1))\nE\n}\n", "echo $(a\nb) $(\nc\n)\n",
	"if a; then\nb\nelif c; then\nd\nelse\ne\nfi\n", "{\na\nb; c\n}\n", "(a; b)\n", "(\na\n)\n", "a; b; c\n", "a & b &\n",
}

func init() {
	core.Register(&core.Engine{
		ID:          "C05",
		Level:       "exploration",
		Technique:   "runtime monitoring: metamorphic round trip — the tree of an accepted generated program is printed under each of the 256 Configs, the printed bytes are re-read by the real parser, and the normalised skeleton and here-document bodies are compared with the original",
		Rule:        "a case is an accepted program (generator-derived and confirmed by its expected tree, in single-line and multi-line layouts, with here-documents inside every compound construct; plus 47 dedicated sources: nested subshells, here-documents in conditions/bodies/case items/functions/pipelines/command substitutions, & before then/do, for without in, empty case bodies ...) x the complete space of 256 Config combinations. distinct_nontrivial = distinct programs (normalised skeletons) round-tripped.",
		Assumptions: []string{"';' and newline are equivalent separators (normalised skeleton); node positions are not compared", "programs the parser rejects or parses differently from the generator's expectation are C02's business and skipped here"},
		Gen:         prGen("c05"),
		Replay:      func(c *core.Ctx, raw []byte) { core.ReplayOne(c, raw, c05Exec) },
		Finish: func(m *core.Merged) string {
			for b := 0; b < 8; b++ {
				if m.Counters[fmt.Sprintf("config-bit/%d", b)] < 1000 {
					return "a Config bit was hardly exercised"
				}
			}
			if m.Counters["programs-with-heredocs"] < 20 {
				return "too few programs with here-documents"
			}
			return ""
		},
	})
	core.Register(&core.Engine{
		ID:          "C18",
		Level:       "fault_enumeration",
		Technique:   "runtime monitoring: self-comparison (fix-point, repeat, deep dump of the tree before/after Fprint) over 256 Configs, and fault injection at the io.Writer: writers failing after k bytes for every k up to the output length",
		Rule:        "a case is an accepted program; for each of the 256 Configs: print, dump the tree before/after (every field incl. the separators the printer hides temporarily), print again (determinism), re-parse and print (fix-point). Writer faults: for 8 Configs covering the Then/Do/Redir combinations that edit the tree temporarily, a writer failing after k bytes — every k in [0, len) for a quarter of the programs and all dedicated sources, k in {0,1,len/2,len-1,4095,4096,4097} otherwise, including an output longer than bufio's buffer. distinct_nontrivial = distinct sources completed.",
		Assumptions: []string{"programs whose printed text is rejected or denotes another program are C05's business and skipped here"},
		Gen:         prGen("c18"),
		Replay:      func(c *core.Ctx, raw []byte) { core.ReplayOne(c, raw, c18Exec) },
		Finish: func(m *core.Merged) string {
			if m.Counters["writer-faults-injected"] < 1000 || m.Counters["writer-faults-reported"] < 1000 || m.Counters["round-trips"] < 1000 {
				return "too few writer faults / round trips observed"
			}
			return ""
		},
	})
}
