package props

import (
	"fmt"
	"math/rand/v2"
	"strings"

	"github.com/hattya/go.sh/ast"
	"github.com/hattya/go.sh/interp"
	"github.com/hattya/go.sh/parser"

	"verif/core"
	"verif/gen"
	"verif/mon"
	"verif/skel"
)

// C17 — alias substitution equals textual replacement at command position.
//
// Each case carries the aliased source, the alias table and the text obtained
// by the harness's own textual replacement; both are parsed (with / without the
// table) and the normalised skeletons compared.

type c17Case struct {
	Src     string            `json:"src"`     // text containing alias names
	Aliases map[string]string `json:"aliases"` // the table
	Plain   string            `json:"plain"`   // the same program after textual replacement
	Kind    string            `json:"kind"`
}

func c17Exec(c *core.Ctx, cs c17Case) {
	env := interp.NewExecEnv("sh")
	for k, v := range cs.Aliases {
		env.Aliases[k] = v
	}
	s0 := mon.Substs.Load()
	got, _, gerr := parser.ParseCommands(env, "c17", cs.Src)
	subs := mon.Substs.Load() - s0
	want, _, werr := parser.ParseCommands(nil, "c17", cs.Plain)
	if cs.Kind == "alias-lines" {
		// a newline inside an alias value continues the parse: ONE call with the alias
		// returns what successive calls return for the replaced text
		want, werr = nil, nil
		for rd := strings.NewReader(cs.Plain); rd.Len() > 0 && werr == nil; {
			var cmds []ast.Command
			cmds, _, werr = parser.ParseCommands(nil, "c17", rd)
			want = append(want, cmds...)
		}
	}
	c.Eval(1)
	c.Count("kind/"+cs.Kind, 1)
	c.Count("substitutions", int(subs))
	key := fmt.Sprintf("%s | %v", q(cs.Src), cs.Aliases)
	switch {
	case werr != nil && cs.Kind == "prefix-alias" && gerr == nil:
		c.Violation("accepted", key, "rejected like "+q(cs.Plain)+" ("+werr.Error()+")", "accepted: "+skel.Cmds(got, skel.Normalised), "")
		return
	case werr != nil:
		c.Skip("replaced text not accepted (not a C17 matter)")
		return
	case gerr != nil:
		c.Violation("rejected", key, "parses like "+q(cs.Plain), gerr.Error(), "")
		return
	}
	if g, w := skel.Cmds(got, skel.Normalised), skel.Cmds(want, skel.Normalised); g != w {
		c.Violation("different-program", key, w, g, "textual replacement: "+q(cs.Plain))
		return
	}
	if subs > int64(64*(len(cs.Src)+len(cs.Aliases))) {
		c.Violation("work-bound", key, "bounded substitutions", subs, "")
	}
	c.Distinct(cs.Src, fmt.Sprint(cs.Aliases))
	if c.Index()%997 == 0 {
		c.Sample(map[string]any{"source": cs.Src, "aliases": cs.Aliases, "replaced": cs.Plain, "substitutions": subs, "kind": cs.Kind})
	}
}

func plainWord(s string) bool {
	if s == "" || isReservedWord(s) || strings.ContainsAny(s, "=$`'\"\\~{}*?[#!") {
		return false
	}
	for _, r := range s {
		if r == ' ' || r == '\t' || r == '\n' {
			return false
		}
	}
	return true
}

func isReservedWord(s string) bool {
	switch s {
	case "!", "{", "}", "for", "case", "esac", "in", "if", "elif", "then", "else", "fi", "while", "until", "do", "done":
		return true
	}
	return false
}

type c17Prog struct {
	toks []gen.Tok
	r    *gen.Rendered
}

func (p *c17Prog) end(i int) int { return p.r.Toks[i].Off + len(p.r.Toks[i].Text) }

// runOK reports whether tokens i..j can be folded into an alias value.
func (p *c17Prog) runOK(i, j int) bool {
	t := p.r.Toks
	if !t[i].CmdStart || t[j].Glue || strings.HasSuffix(t[j].Text, " ") || strings.HasSuffix(t[j].Text, "\t") {
		// (a value ending in an escaped blank: whether that "ends in a blank" is a gray zone)
		return false
	}
	for k := i; k <= j; k++ {
		if t[k].Kind == gen.TNewline || t[k].Kind == gen.THereBody || t[k].HDPend || strings.HasPrefix(t[k].Text, "<<") {
			return false
		}
	}
	return true
}

func c17Gen(c *core.Ctx) {
	n := c.Pick(6000, 600000)
	for i := 0; i < n; i++ {
		r := c.Rand("prog", int64(i))
		o := gen.Options{Budget: 3 + r.IntN(12), Heredocs: i%5 == 0, Flat: i%4 == 1}
		q := gen.New(r, o).Program()
		toks := gen.Tokens(q, true)
		p := &c17Prog{toks: toks, r: gen.Join(toks, nil)}
		for k := 0; k < 6; k++ {
			if !c.Mine() {
				c17Build(p, r, k) // keep the PRNG aligned
				continue
			}
			if cs, ok := c17Build(p, r, k); ok {
				core.Run(c, cs, c17Exec)
			}
		}
	}
	// hand-written scenarios (value, following source, the text they stand for)
	for _, d := range []struct {
		src   string
		al    map[string]string
		plain string
	}{
		// a value that ends in an operator and a blank: the following word is examined
		{"a f", map[string]string{"a": "cat < ", "f": "g"}, "cat < g"},
		{"a f h", map[string]string{"a": "cat >> ", "f": "g ", "h": "i"}, "cat >> g i"},
		{"a f", map[string]string{"a": "echo >& ", "f": "2"}, "echo >& 2"},
		{"a f", map[string]string{"a": "x | ", "f": "g"}, "x | g"},
		{"a f", map[string]string{"a": "x && ", "f": "g"}, "x && g"},
		{"a f", map[string]string{"a": "! ", "f": "g"}, "! g"},
		{"a f; }", map[string]string{"a": "{ ", "f": "g"}, "{ g; }"},
		{"a c", map[string]string{"a": "b c ", "b": "echo ", "c": "X"}, "echo X X"},
		{"a c", map[string]string{"a": "b ", "b": "echo", "c": "X"}, "echo X"},
		{"a c d", map[string]string{"a": "b ", "b": "e ", "e": "echo", "c": "X ", "d": "Y"}, "echo X Y"},
		// an outer alias that is exhausted while the inner value is read: only the word after the whole chain is examined
		{"outer", map[string]string{"outer": "inner ", "inner": "echo hi there", "hi": "NO"}, "echo hi there"},
		{"outer x hi", map[string]string{"outer": "inner ", "inner": "echo hi", "x": "X", "hi": "NO"}, "echo hi X hi"},
		{"outer", map[string]string{"outer": "inner ", "inner": "if x; then y hi; fi >hi", "hi": "NO"}, "if x; then y hi; fi >hi"},
		{"o x", map[string]string{"o": "m ", "m": "i ", "i": "echo a b", "a": "NO", "b": "NO", "x": "X "}, "echo a b X"},
		// a value that ends in a blank inside the word list of a for loop: the next word is examined there too
		{"F p p; do echo $x; done", map[string]string{"F": "for x in ", "p": "b c"}, "for x in b c p; do echo $x; done"},
		{"F p q", map[string]string{"F": "for x in ", "p": "1 2 ", "q": "3; do echo $x; done"}, "for x in 1 2 3; do echo $x; done"},
		{"F p; do :; done", map[string]string{"F": "for x in a\t", "p": "b"}, "for x in a\tb; do :; done"},
		{"for x in F p; do :; done", map[string]string{"F": "a ", "p": "b"}, "for x in F p; do :; done"},
		{"W p; do :; done", map[string]string{"W": "while ", "p": "true"}, "while true; do :; done"},
		{"I p; then :; fi", map[string]string{"I": "if ! ", "p": "true"}, "if ! true; then :; fi"},
		// witnesses of open known findings (and their repaired neighbours)
		{"a x) :;; esac", map[string]string{"a": "case x in ", "x": "y"}, "case x in y) :;; esac"},
		{"a x) :;; esac", map[string]string{"a": "case x in ( ", "x": "y"}, "case x in ( y) :;; esac"},
		{"a& echo y", map[string]string{"a": "true &"}, "true && echo y"},
		{"a\nfoo\nE\n", map[string]string{"a": "cat <<E\n"}, "cat <<E\n\nfoo\nE\n"},
		{"a\\\nb there", map[string]string{"ab": "echo hi"}, "echo hi there"},
		// a here-document whose body comes from the alias value, wherever the alias word stands
		{" a", map[string]string{"a": "cat <<E\nbody\nE\n"}, " cat <<E\nbody\nE\n"},
		{": ; a", map[string]string{"a": "cat <<E\nbody\nE\n"}, ": ; cat <<E\nbody\nE\n"},
		{"if x; then\n  a\nfi", map[string]string{"a": "cat <<E\nbody\nE\n"}, "if x; then\n  cat <<E\nbody\nE\n\nfi"},
		{"a", map[string]string{"a": "cat <<E\nbody\nE\n"}, "cat <<E\nbody\nE\n"},
		// command position inside a command substitution
		{"echo $(foo)", map[string]string{"foo": "echo hi"}, "echo $(echo hi)"},
		{"echo `foo`", map[string]string{"foo": "echo hi"}, "echo `echo hi`"},
		{"echo \"$(foo; foo)\"", map[string]string{"foo": "echo hi"}, "echo \"$(echo hi; echo hi)\""},
		{"a", map[string]string{"a": "echo $(b)", "b": "c"}, "echo $(c)"},
		{"echo $(foo bar)", map[string]string{"foo": "x ", "bar": "y"}, "echo $(x y)"},
		{"echo $(echo foo)", map[string]string{"foo": "BOGUS"}, "echo $(echo foo)"},
		{"foo $(foo)", map[string]string{"foo": "foo x"}, "foo x $(foo x)"},
	} {
		core.Do(c, c17Case{Src: d.src, Aliases: d.al, Plain: d.plain, Kind: "hand-written"}, c17Exec)
	}
	// a value that ends in a redirection operator and a blank: the target (file name or
	// here-document delimiter) is the following word and is examined too, whatever the
	// operator and wherever the redirection stands
	for _, op := range []string{"<", ">", ">>", ">|", "<>", "2>", "2>>", "<&", ">&", "<<", "<<-"} {
		for _, head := range []string{"cat ", "", "x=1 ", "{ ls; } ", "if a; then b; fi ", "a | cat "} {
			val, tgt, rest := head+op+" ", "T", "\n"
			if strings.HasPrefix(op, "<<") {
				tgt, rest = "EOF", "\nbody\nEOF\n"
			} else if strings.HasSuffix(op, "&") {
				tgt = "3"
			}
			if head == "" || head == "x=1 " {
				rest = " cmd" + rest
			}
			core.Do(c, c17Case{Src: "r t" + rest, Aliases: map[string]string{"r": val, "t": tgt}, Plain: val + tgt + rest, Kind: "redir-blank"}, c17Exec)
			// through a chain, and with the target itself ending in a blank
			core.Do(c, c17Case{Src: "o t u" + rest, Aliases: map[string]string{"o": "r ", "r": val, "t": tgt + " ", "u": "U"}, Plain: val + tgt + " U" + rest, Kind: "redir-blank"}, c17Exec)
			// control: without the blank the target is not examined
			core.Do(c, c17Case{Src: "r t" + rest, Aliases: map[string]string{"r": strings.TrimRight(val, " "), "t": tgt + "X"}, Plain: strings.TrimRight(val, " ") + " t" + rest, Kind: "redir-blank"}, c17Exec)
		}
	}
	// alias values that hold newlines, whole commands and whole here-documents
	for _, d := range []struct {
		src   string
		al    map[string]string
		plain string
	}{
		{"x\n", map[string]string{"x": "a\nb"}, "a\nb\n"}, {"x\n", map[string]string{"x": "a\nb\nc d"}, "a\nb\nc d\n"},
		{"x\n", map[string]string{"x": "cat <<E\nhi\nE\necho b"}, "cat <<E\nhi\nE\necho b\n"}, {"x y\n", map[string]string{"x": "cat <<E\nhi\nE\necho"}, "cat <<E\nhi\nE\necho y\n"},
		{"x\n", map[string]string{"x": "cat <<E <<F\n1\nE\n2\nF\necho b; echo c"}, "cat <<E <<F\n1\nE\n2\nF\necho b; echo c\n"},
		{"x\n", map[string]string{"x": "a &\nb |\nc"}, "a &\nb |\nc\n"}, {"x\n", map[string]string{"x": "if a\nthen b\nfi\nc"}, "if a\nthen b\nfi\nc\n"},
		{"x z\n", map[string]string{"x": "a\ny ", "y": "b\nc ", "z": "d"}, "a\nb\nc d\n"},
	} {
		core.Do(c, c17Case{Src: d.src, Aliases: d.al, Plain: d.plain, Kind: "alias-lines"}, c17Exec)
	}
	// an alias after an assignment or redirection prefix: its value is further words of the same
	// simple command, so "!", "{" and reserved words at its start are ordinary words there
	for _, pre := range []string{"FOO=1 ", ">f ", "2>f FOO=1 ", "x=1 y=2 <g ", "if >f ", "{ x=1 ", "( >f "} {
		for _, val := range []string{"{", "! x", "in x", "done", "then y", "if", "}", "fi", "for", "case x", "esac", "do", "elif z", "else", "while", "until", "{ b; }", "b", "b ", "! ", "x=2", ">g"} {
			for _, post := range []string{"", " y", " a", "; }", "; fi", " )"} {
				src, plain := pre+"a"+post+"\n", pre+val+post+"\n"
				al := map[string]string{"a": val}
				if (strings.HasSuffix(val, " ") || val == "x=2" || val == ">g") && strings.HasPrefix(post, " a") {
					continue // (the following word would be examined: it is the alias itself, still in command position)
				}
				core.Do(c, c17Case{Src: src, Aliases: al, Plain: plain, Kind: "prefix-alias"}, c17Exec)
				// the value reached through a chain
				core.Do(c, c17Case{Src: src, Aliases: map[string]string{"a": "c", "c": val}, Plain: plain, Kind: "prefix-alias"}, c17Exec)
			}
		}
	}
	// fixed scenarios: cycles over <=3 names x trailing blanks, the pinned repo scenarios re-derived
	names := []string{"aa", "bb", "cc"}
	for mask := 0; mask < 27*8; mask++ {
		m := map[string]string{}
		for j, nme := range names {
			t := names[(mask/8/pow3(j))%3] + " x" + fmt.Sprint(j)
			if mask&(1<<j) != 0 {
				t += " "
			}
			m[nme] = t
		}
		src := "aa y\n"
		core.Do(c, c17Case{Src: src, Aliases: m, Plain: c17Replace(src, m), Kind: "cycle"}, c17Exec)
	}
}

// c17Replace is the POSIX algorithm (XCU 2.3.1) on a single simple command
// "w args..." with alias values that are plain word lists: substitute the
// command word unless it is being expanded already, re-examine the first word of
// the result, and examine the next word when the value ended in a blank.
func c17Replace(src string, t map[string]string) string {
	nl := strings.HasSuffix(src, "\n")
	words := strings.Fields(src)
	var out []string
	var expand func(w string, active map[string]bool) (res []string, blank bool)
	expand = func(w string, active map[string]bool) ([]string, bool) {
		v, ok := t[w]
		if !ok || active[w] {
			return []string{w}, false
		}
		vw := strings.Fields(v)
		blank := strings.HasSuffix(v, " ")
		if len(vw) == 0 {
			return nil, blank
		}
		a2 := map[string]bool{w: true}
		for k := range active {
			a2[k] = true
		}
		first, fblank := expand(vw[0], a2)
		res := append([]string{}, first...)
		rest := vw[1:]
		for fblank && len(rest) > 0 {
			// the value of the inner alias ended in a blank: its next word is examined too
			var nx []string
			nx, fblank = expand(rest[0], a2)
			res = append(res, nx...)
			rest = rest[1:]
		}
		res = append(res, rest...)
		return res, blank && len(rest) >= 0
	}
	i := 0
	blank := true
	for i < len(words) && blank {
		var res []string
		res, blank = expand(words[i], map[string]bool{})
		out = append(out, res...)
		i++
		if i == 1 && !blank {
			break
		}
	}
	out = append(out, words[i:]...)
	s := strings.Join(out, " ")
	if nl {
		s += "\n"
	}
	return s
}

// c17Build derives one (aliased source, table, replaced text) triple from the
// program; variant selects the construction.
func c17Build(p *c17Prog, r *rand.Rand, variant int) (c17Case, bool) {
	t := p.r.Toks
	text := p.r.Text
	// candidate starts
	var starts []int
	for i := range t {
		if t[i].CmdPos && plainWord(t[i].Text) {
			starts = append(starts, i)
		}
	}
	if len(starts) == 0 {
		return c17Case{}, false
	}
	var foldStarts []int
	for i := range t {
		if t[i].CmdStart {
			foldStarts = append(foldStarts, i)
		}
	}
	pickRun := func() (int, int, bool) {
		for try := 0; try < 8; try++ {
			i := foldStarts[r.IntN(len(foldStarts))]
			if variant == 3 {
				i = starts[r.IntN(len(starts))]
			}
			j := i + r.IntN(8)
			if j >= len(t) {
				j = len(t) - 1
			}
			for j > i && !p.runOK(i, j) {
				j--
			}
			if p.runOK(i, j) {
				return i, j, true
			}
		}
		return 0, 0, false
	}
	count := func(w string) (cmd, other int) {
		for _, x := range t {
			if x.Text == w {
				if x.CmdPos {
					cmd++
				} else {
					other++
				}
			}
		}
		if strings.Count(text, w) != cmd+other {
			// the name also occurs inside some word (a command substitution, where it
			// may stand in command position too): not usable as an alias name here
			return 99, 99
		}
		return
	}
	switch variant {
	case 0, 1: // fold one run (variant 1: as a chain of two aliases)
		i, j, ok := pickRun()
		if !ok {
			return c17Case{}, false
		}
		run := text[t[i].Off:p.end(j)]
		al := map[string]string{"ALIAS_1": run}
		kind := "fold"
		if variant == 1 && j > i {
			// ALIAS_1 -> "ALIAS_2 rest", ALIAS_2 -> first token(s)
			m := i + r.IntN(j-i)
			if !t[m].Glue && !strings.HasSuffix(t[m].Text, " ") && !strings.HasSuffix(t[m].Text, "\t") {
				al["ALIAS_2"] = text[t[i].Off:p.end(m)]
				al["ALIAS_1"] = "ALIAS_2" + text[p.end(m):p.end(j)]
				if !strings.HasPrefix(text[p.end(m):], " ") && p.end(m) < p.end(j) {
					al["ALIAS_1"] = "ALIAS_2 " + text[p.end(m):p.end(j)]
				}
				kind = "fold-chain"
			}
		}
		if variant == 1 && kind == "fold" && r.IntN(2) == 0 {
			// the outer value is nothing but another alias and a blank: the outer alias is
			// exhausted (and still remembered) while the inner value is being read
			al["ALIAS_2"] = run
			al["ALIAS_1"] = "ALIAS_2" + pick(r, []string{" ", "\t", "  "})
			kind = "fold-wrap"
			if j+1 < len(t) && t[j+1].Kind == gen.TWord && (al[t[j+1].Text] != "" || !plainWord(t[j+1].Text)) {
				return c17Case{}, false
			}
		}
		// decoys: words of the run that are not in command position name aliases too; they stay as they are
		for k, nd := i+1, 0; k <= j && nd < 2; k++ {
			w := t[k].Text
			if t[k].Kind != gen.TWord || t[k].CmdPos || !plainWord(w) || isReservedWord(w) || al[w] != "" || r.IntN(2) == 0 {
				continue
			}
			if cmd, _ := count(w); cmd != 0 {
				continue
			}
			if strings.Contains(run[:t[k].Off-t[i].Off], "<<") {
				break // (a here-document body inside the value: its words are no tokens)
			}
			al[w] = pick(r, []string{"DECOY", "DECOY x ", "{", "! y"})
			nd++
			kind += "+decoy"
		}
		if strings.HasPrefix(kind, "fold-wrap") && j+1 < len(t) && t[j+1].Kind == gen.TWord && al[t[j+1].Text] != "" {
			// (the outer value ends in a blank: the word after the run is examined, and a decoy has taken its name)
			return c17Case{}, false
		}
		if r.IntN(3) == 0 && !strings.HasPrefix(kind, "fold-wrap") {
			al["ALIAS_1"] += pick(r, []string{" ", "\t", "  "}) // a trailing blank must not matter when an operator / nothing alias-like follows
			if j+1 < len(t) && t[j+1].Kind == gen.TWord && al[t[j+1].Text] != "" {
				return c17Case{}, false
			}
		}
		src := text[:t[i].Off] + "ALIAS_1" + text[p.end(j):]
		return c17Case{Src: src, Aliases: al, Plain: text, Kind: kind}, true
	case 2: // trailing blank: the next word (argument position) is examined iff the value ends in a blank
		for try := 0; try < 8; try++ {
			i := starts[r.IntN(len(starts))]
			if i+1 >= len(t) || t[i+1].Kind != gen.TWord || !plainWord(t[i+1].Text) || t[i+1].CmdPos || t[i].HDPend {
				continue
			}
			blank := r.IntN(2) == 0
			v1 := t[i].Text
			if blank {
				v1 += pick(r, []string{" ", "\t", "  ", " \t", "\t "})
			}
			al := map[string]string{"ALIAS_1": v1, "ALIAS_2": t[i+1].Text}
			if r.IntN(3) == 0 {
				// the value that ends in a blank consists of another alias (which has no
				// trailing blank itself): the blank of the outer value still counts
				al["ALIAS_0"] = t[i].Text
				al["ALIAS_1"] = "ALIAS_0" + v1[len(t[i].Text):]
			}
			// the following word may itself be the head of a chain: replacement is repeated there too
			last := "ALIAS_2"
			for d, depth := 0, r.IntN(3); d < depth; d++ {
				next := fmt.Sprintf("ALIAS_%d", 3+d)
				al[next] = al[last]
				al[last] = next
				last = next
			}
			src := text[:t[i].Off] + "ALIAS_1 ALIAS_2" + text[p.end(i+1):]
			plain := text
			kind := "trailing-blank"
			if !blank {
				plain = text[:t[i+1].Off] + "ALIAS_2" + text[p.end(i+1):]
				kind = "no-trailing-blank"
			}
			return c17Case{Src: src, Aliases: al, Plain: plain, Kind: kind}, true
		}
	case 3: // self reference: w -> "w more tokens"
		i, j, ok := pickRun()
		if !ok || j == i {
			return c17Case{}, false
		}
		w := t[i].Text
		if cmd, _ := count(w); cmd != 1 {
			return c17Case{}, false
		}
		al := map[string]string{w: text[t[i].Off:p.end(j)]}
		src := text[:p.end(i)] + text[p.end(j):]
		return c17Case{Src: src, Aliases: al, Plain: text, Kind: "self-reference"}, true
	case 4: // negative positions: names that occur only outside command position are never replaced
		al := map[string]string{}
		for _, x := range t {
			if x.Kind == gen.TWord && !x.CmdPos && plainWord(x.Text) {
				if cmd, _ := count(x.Text); cmd == 0 {
					al[x.Text] = "BOGUS_CMD bogus-arg"
				}
			}
			if x.Kind == gen.TAssign {
				al[x.Text] = "BOGUS_CMD assign"
			}
		}
		for _, w := range []string{"if", "then", "else", "elif", "fi", "do", "done", "case", "esac", "for", "in", "while", "until", "{", "}", "!"} {
			al[w] = "BOGUS_CMD reserved"
		}
		return c17Case{Src: text, Aliases: al, Plain: text, Kind: "negative-positions"}, true
	case 5: // quoted command names are never replaced
		i := starts[r.IntN(len(starts))]
		w := t[i].Text
		if cmd, _ := count(w); cmd != 1 || t[i].HDPend {
			return c17Case{}, false
		}
		rs := []rune(w)
		quoted := pick(r, []string{"'" + w + "'", `"` + w + `"`, `\` + w, string(rs[:1]) + "''" + string(rs[1:]), string(rs[:1]) + `\` + string(rs[1:]),
			// the alias name followed by a quoted / expanded part: one word, not the alias
			w + "''", w + `""`, w + "'x'", w + "$s", w + `\x`, w + `"$@"`, w + "${s}", w + "$(" + map[bool]string{true: "true", false: ":"}[w == ":"] + ")"})
		if len(rs) == 1 && len([]rune(quoted)) < 3 {
			quoted = "'" + w + "'"
		}
		src := text[:t[i].Off] + quoted + text[p.end(i):]
		return c17Case{Src: src, Aliases: map[string]string{w: "BOGUS_CMD quoted"}, Plain: src, Kind: "quoted-name"}, true
	}
	return c17Case{}, false
}

func init() {
	core.Register(&core.Engine{
		ID:          "C17",
		Level:       "exploration",
		Technique:   "runtime monitoring: differential oracle by construction — command-position token runs of a generated program are folded into aliases (so the unfolded text is the program itself), or a table that must be inert is attached; ParseCommands with the table is compared with ParseCommands of the harness's textual replacement",
		Rule:        "a case is (aliased source, alias table, textually replaced source); besides the generated folds there is the redir-blank product (alias values ending in one of 11 redirection operators and a blank x 6 heads, directly / through a chain with a blank-terminated target / control without the blank): fold of a run of 1-8 tokens starting at a command-position word (values contain operators, reserved words, assignments, redirections, whole compound openers), fold as a chain of two aliases, value with trailing blanks, trailing blank making the next (argument-position) word an alias / no trailing blank leaving it alone, self reference (ls -> 'ls -l'), tables naming only argument-position words, assignment words and all reserved words (must be inert), quoted command names (must be inert), and all 216 cyclic tables over 3 names x trailing blanks against the POSIX algorithm executed by the harness. Normalised skeletons compared; positions are not. distinct_nontrivial = distinct (source, table) pairs.",
		Assumptions: []string{"alias names inside command substitutions are not generated (go.sh's nested lexers have no alias table)", "values ending in an escaped blank are not generated", "runs never contain newlines or here-document operators"},
		Gen:         c17Gen,
		Replay:      func(c *core.Ctx, raw []byte) { core.ReplayOne(c, raw, c17Exec) },
		Finish: func(m *core.Merged) string {
			for _, k := range []string{"fold", "fold-chain", "trailing-blank", "no-trailing-blank", "self-reference", "negative-positions", "quoted-name", "cycle"} {
				if m.Counters["kind/"+k] < 30 {
					return "too few cases of kind " + k
				}
			}
			if m.Counters["substitutions"] < 1000 {
				return "too few substitutions observed"
			}
			return ""
		},
	})
}
