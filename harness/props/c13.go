package props

import (
	"fmt"
	"os"
	"reflect"
	"sort"
	"strings"
	"sync"

	"github.com/hattya/go.sh/ast"
	"github.com/hattya/go.sh/interp"
	"github.com/hattya/go.sh/parser"

	"verif/core"
	"verif/refexp"
)

// C13 — parameter expansion against refexp (end to end: source text -> parser -> Expand).

type c13Case struct {
	refexp.Case
	Kind string `json:"kind"`
}

func c13Env(cs *refexp.Case) *interp.ExecEnv {
	name0 := "sh"
	if cs.EmptyN0 {
		name0 = ""
	}
	env := interp.NewExecEnv(name0, cs.Args...)
	env.Opts = interp.NoGlob
	if cs.Glob {
		env.Opts = 0
	}
	if cs.NoUnset {
		env.Opts |= interp.NoUnset
	}
	for _, n := range []string{"v", "y", "z", "o"} {
		env.Unset(n)
	}
	if cs.IFSSet {
		env.Set("IFS", cs.IFS)
	} else {
		env.Unset("IFS")
	}
	if cs.Set {
		env.Set("v", cs.Value)
	}
	env.Set("o", cs.Other)
	return env
}

func c13Fill(cs *refexp.Case) {
	cs.Name0 = "sh"
	if cs.EmptyN0 {
		cs.Name0 = ""
	}
	cs.Pid = os.Getpid()
	cs.Opts = "f"
	if cs.Glob {
		cs.Opts = ""
	}
	if cs.NoUnset {
		cs.Opts += "u"
	}
}

var c13DirOnce sync.Once

func c13Exec(c *core.Ctx, cs c13Case) {
	// an empty working directory: with the f option off no pattern matches anything
	c13DirOnce.Do(func() { os.Chdir(c.ScratchDir("c13-empty")) })
	c13Fill(&cs.Case)
	src := "x " + cs.Source()
	key := fmt.Sprintf("%s | v=%s args=%q nounset=%v ifs=%s o=%q", src, c13Val(&cs.Case), cs.Args, cs.NoUnset, c13IFS(&cs.Case), cs.Other)
	cmd, _, perr := parser.ParseCommand("c13", src)
	if perr != nil {
		c.Violation("parse", key, "the source parses", perr.Error(), "")
		return
	}
	sc, ok := cmd.(*ast.Cmd)
	if !ok {
		c.Violation("parse", key, "a simple command", fmt.Sprintf("%T", cmd), "")
		return
	}
	args := sc.Expr.(*ast.SimpleCmd).Args
	if len(args) != 2 {
		c.Violation("parse", key, "2 words", fmt.Sprint(len(args)), "")
		return
	}
	want := refexp.Eval(&cs.Case, map[string]string{"o": cs.Other})
	env := c13Env(&cs.Case)
	got, err := env.Expand(args[1], 0)
	c.Eval(1)
	cell := fmt.Sprintf("op=%s/param=%s/dq=%v/nounset=%v", opName(cs.Op, cs.Braces), paramClass(&cs.Case), cs.DQ, cs.NoUnset)
	c.Count("cell/"+cell, 1)
	if want.Skip != "" {
		c.Skip(want.Skip)
		return
	}
	if err != nil {
		if _, ok := err.(interp.ParamExpError); !ok {
			c.Violation("error-type", key, "ParamExpError", fmt.Sprintf("%T: %v", err, err), "")
			return
		}
	}
	if pe, ok := err.(interp.ParamExpError); ok && want.Err == "indicate" {
		// ${x?word}: the message is the expansion of word; an omitted word asks for a
		// message of the implementation's own choice (a word that expands to nothing does not)
		switch {
		case !want.HasWord && pe.Msg == "":
			c.Violation("message", key, "a message that says the parameter is unset or null (no word was given)", `""`, "")
			return
		case want.HasWord && want.MsgOK && pe.Msg != want.Msg:
			c.Violation("message", key, fmt.Sprintf("%q (the expansion of the word)", want.Msg), fmt.Sprintf("%q", pe.Msg), "")
			return
		}
		c.Count("messages-judged", 1)
	}
	switch {
	case want.Err != "" && err == nil:
		c.Violation("error-missed", key, "ParamExpError ("+want.Err+")", fmt.Sprintf("fields %q", got), "")
		return
	case want.Err == "" && err != nil:
		c.Violation("bogus-error", key, fmt.Sprintf("fields %q", want.Fields), err.Error(), "")
		return
	case want.Err == "" && !(len(got) == 0 && len(want.Fields) == 0) && !reflect.DeepEqual(got, want.Fields):
		c.Violation("fields", key, fmt.Sprintf("%q", want.Fields), fmt.Sprintf("%q", got), "")
		return
	}
	// store: v, y, z
	for _, n := range []string{"v", "y", "z", "o"} {
		wv, wset := want.Store[n]
		gv, gset := env.Get(n)
		if want.Err != "" && n != "v" && n != "o" {
			continue // side effects of the message word before an error are not judged
		}
		if wset != gset || (wset && wv != gv.Value) {
			c.Violation("store", key+" var="+n, fmt.Sprintf("set=%v %q", wset, wv), fmt.Sprintf("set=%v %q", gset, gv.Value), "variable store after the expansion differs from the model")
			return
		}
	}
	c.Distinct(key)
	if c.Index()%2003 == 0 {
		c.Sample(map[string]any{"source": src, "v": c13Val(&cs.Case), "args": cs.Args, "nounset": cs.NoUnset, "ifs": c13IFS(&cs.Case), "fields": want.Fields, "error": want.Err})
	}
}

func c13Val(cs *refexp.Case) string {
	if !cs.Set {
		return "<unset>"
	}
	return fmt.Sprintf("%q", cs.Value)
}

func c13IFS(cs *refexp.Case) string {
	if !cs.IFSSet {
		return "<unset>"
	}
	return fmt.Sprintf("%q", cs.IFS)
}

func opName(op string, braces bool) string {
	if op == "" {
		if braces {
			return "${p}"
		}
		return "$p"
	}
	return op
}

func paramClass(cs *refexp.Case) string {
	switch cs.Param {
	case "v":
		switch {
		case !cs.Set:
			return "var-unset"
		case cs.Value == "":
			return "var-null"
		}
		return "var-nonnull"
	case "@", "*":
		return cs.Param + fmt.Sprint(min(len(cs.Args), 2))
	case "1", "2", "10", "08", "010", "09":
		n := map[string]int{"1": 1, "2": 2, "10": 10, "08": 8, "010": 10, "09": 9}[cs.Param]
		switch {
		case n > len(cs.Args):
			return "pos-unset"
		case cs.Args[n-1] == "":
			return "pos-null"
		}
		return "pos-nonnull"
	}
	return "special" + cs.Param
}

func c13Gen(c *core.Ctx) {
	refexp.Product(func(cs refexp.Case) { core.Do(c, c13Case{Case: cs, Kind: "product"}, c13Exec) })
	// a plain expansion inside $(( )): nounset applies there as well
	for _, pr := range []refexp.Param{{Name: "v"}, {Name: "v", Set: true}, {Name: "v", Set: true, Value: "5"}, {Name: "v", Set: true, Value: "12"}, {Name: "1"}, {Name: "1", Args: []string{"7"}}, {Name: "2", Args: []string{"7"}}} {
		for _, br := range []bool{false, true} {
			for _, dq := range []bool{false, true} {
				for _, nu := range []bool{false, true} {
					var cs refexp.Case
					cs.Param, cs.Set, cs.Value, cs.Args = pr.Name, pr.Set, pr.Value, pr.Args
					cs.Braces, cs.DQ, cs.NoUnset, cs.InArith = br, dq, nu, true
					cs.IFS, cs.IFSSet, cs.Other = " \t\n", true, "o1 o2"
					core.Do(c, c13Case{Case: cs, Kind: "in-arithmetic"}, c13Exec)
					if !br && pr.Name != "v" {
						cs.ArithGlue = true
						core.Do(c, c13Case{Case: cs, Kind: "in-arithmetic"}, c13Exec)
					}
				}
			}
		}
	}
	// random draws: values, words and other-variable contents
	n := c.Pick(40000, 10000000)
	params := refexp.Params()
	pool := []string{"a", "b", " ", ",", ":", "*", "?", "é", "日", "/", "x", "\t", "[", "]", "-", "."}
	rs := func(r interface{ IntN(int) int }, k int) string {
		var b strings.Builder
		for i := r.IntN(k + 1); i > 0; i-- {
			b.WriteString(pool[r.IntN(len(pool))])
		}
		return b.String()
	}
	litSafe := func(s string) string {
		// text written unquoted inside ${...}: keep characters whose source spelling is unambiguous
		return strings.NewReplacer("[", "", "]", "", "\t", " ").Replace(s)
	}
	for i := 0; i < n; i++ {
		if !c.Mine() {
			continue
		}
		r := c.Rand("rand", int64(i))
		p := pick(r, params)
		cs := c13Case{Kind: "random"}
		cs.Param, cs.Set, cs.Value, cs.Args = p.Name, p.Set, p.Value, append([]string(nil), p.Args...)
		if p.Name == "v" && p.Set && r.IntN(2) == 0 {
			cs.Value = rs(r, 6)
		}
		for j := range cs.Args {
			if r.IntN(3) == 0 {
				cs.Args[j] = rs(r, 4)
			}
		}
		cs.Op = pick(r, refexp.Ops)
		if p.Name == "#" && cs.Op != "len" {
			cs.Op = ""
		}
		cs.Braces = cs.Op == "" && (len(p.Name) > 1 && p.Name[0] >= '0' && p.Name[0] <= '9' || r.IntN(2) == 0)
		ws := refexp.Words(cs.Op, cs.Value)
		cs.Word = append([]refexp.WP(nil), pick(r, ws)...)
		if cs.Op != "" && cs.Op != "len" && r.IntN(2) == 0 {
			k := pick(r, []string{"lit", "sq", "dq"})
			t := rs(r, 4)
			if k == "lit" && len(cs.Word) > 0 && cs.Word[len(cs.Word)-1].Kind == "var" {
				k = "dq" // literal text right after $o would extend the name
			}
			if k == "lit" {
				t = litSafe(t)
			}
			cs.Word = append(cs.Word, refexp.WP{Kind: k, Text: t})
		}
		cs.DQ = r.IntN(2) == 0
		cs.NoUnset = r.IntN(2) == 0
		ifs := pick(r, refexp.IFSs)
		cs.IFS, cs.IFSSet = ifs.V, ifs.Set
		cs.Other = rs(r, 5)
		core.Run(c, cs, c13Exec)
	}
}

func init() {
	core.Register(&core.Engine{
		ID:        "C13",
		Level:     "exploration",
		Technique: "runtime monitoring: differential oracle (table-driven POSIX parameter-expansion model + reference splitter) over the full product of operator x parameter state x quoting x nounset x IFS, end to end through the real parser and Expand; fields, error and variable store compared",
		Rule: "a case is one expansion ${p<op>word} with its environment; the full product {$p, ${p}, 8 conditional operators, ${#p}, 4 removal operators} x {variable unset/null/8 values, positional 1/2/10 unset/null/non-null, $@ and $* with 0..3 parameters, specials # ? - $ ! 0} x {13 word shapes: empty, literal, literal with blanks, single-/double-quoted, $other, nested ${y:=Y} and $((z=1)) to observe laziness, mixtures; 15 pattern shapes for % %% # ##} x {unquoted, double-quoted} x {nounset off/on} x {IFS unset, default, ', ', ':', empty}; then seeded random values/words. " +
			"distinct_nontrivial = distinct judged (source, environment) pairs.",
		Assumptions: []string{
			"refexp follows XCU 2.6.2 / 2.5.2, refined by what the repo's tests pin; validated against bash and dash at development time (cases where the two shells agree)",
			"not judged: operators other than length applied to $@ / $*, single quotes inside a double-quoted ${...} word, ${x:=w} whose w has IFS/pattern characters outside double quotes, side effects of the word of :? before the error",
		},
		Gen:        c13Gen,
		Replay:     func(c *core.Ctx, raw []byte) { core.ReplayOne(c, raw, c13Exec) },
		Exhaustive: func(string) bool { return true },
		Finish: func(m *core.Merged) string {
			// every cell of the product must have been observed
			need := map[string]bool{}
			refexp.Product(func(cs refexp.Case) {
				need[fmt.Sprintf("cell/op=%s/param=%s/dq=%v/nounset=%v", opName(cs.Op, cs.Braces), paramClass(&cs), cs.DQ, cs.NoUnset)] = true
			})
			var missing []string
			for k := range need {
				if m.Counters[k] == 0 {
					missing = append(missing, k)
				}
			}
			sort.Strings(missing)
			if len(missing) > 0 {
				return fmt.Sprintf("%d cells of the product not observed, e.g. %s", len(missing), missing[0])
			}
			m.Counters["product_cells_observed"] = int64(len(need))
			for k := range m.Counters {
				if strings.HasPrefix(k, "cell/") {
					delete(m.Counters, k)
				}
			}
			return ""
		},
	})
}
