package props

import (
	"fmt"
	"os"
	"path/filepath"
	"strings"
	"sync"
	"unicode/utf8"

	"github.com/hattya/go.sh/ast"
	"github.com/hattya/go.sh/interp"
	"github.com/hattya/go.sh/parser"
	"github.com/hattya/go.sh/pattern"

	"verif/core"
	"verif/refpat"
)

// C15 — quoted text survives parsing and expansion unchanged.

type c15Case struct {
	S    string `json:"s"`
	Kind string `json:"kind"`
}

var c15Alpha = []string{" ", "\t", "\n", "'", `"`, `\`, "$", "`", "*", "?", "[", "]", "~", "#", "&", "|", ";", "<", ">", "(", ")", "{", "}", "!", "a", "=", ":", "/", "é", "1"}

var c15DirOnce sync.Once
var c15Dir string

// an adversarial current directory: a file for every string of <=2 symbols
// (so that an unquoted s, or any glob-looking part of it, would match something)
func c15Setup(c *core.Ctx) {
	c15DirOnce.Do(func() {
		c15Dir = c.ScratchDir("c15")
		enumStrings(c15Alpha, 1, 2, func(s string, _ []int) {
			if strings.Contains(s, "/") || s == "." || s == ".." {
				return
			}
			os.WriteFile(filepath.Join(c15Dir, s), nil, 0o644)
		})
		os.Mkdir(filepath.Join(c15Dir, "adir"), 0o755)
		os.WriteFile(filepath.Join(c15Dir, "adir", "a"), nil, 0o644)
		if err := os.Chdir(c15Dir); err != nil {
			panic(err)
		}
	})
}

func c15Quotings(s string, mix func(int) int) map[string]string {
	out := map[string]string{}
	// single quotes
	out["single"] = "'" + strings.ReplaceAll(s, "'", `'\''`) + "'"
	// double quotes
	var b strings.Builder
	b.WriteByte('"')
	for _, r := range s {
		switch r {
		case '$', '`', '"', '\\':
			b.WriteByte('\\')
		}
		b.WriteRune(r)
	}
	b.WriteByte('"')
	out["double"] = b.String()
	// backslash before every character
	b.Reset()
	for _, r := range s {
		if r == '\n' {
			b.WriteString("'\n'")
		} else {
			b.WriteByte('\\')
			b.WriteRune(r)
		}
	}
	if s == "" {
		b.WriteString("''")
	}
	out["backslash"] = b.String()
	// mixture per character
	b.Reset()
	for i, r := range s {
		switch mix(i) % 3 {
		case 0:
			if r == '\'' {
				b.WriteString(`\'`)
			} else {
				b.WriteString("'" + string(r) + "'")
			}
		case 1:
			b.WriteByte('"')
			switch r {
			case '$', '`', '"', '\\':
				b.WriteByte('\\')
			}
			b.WriteRune(r)
			b.WriteByte('"')
		default:
			if r == '\n' {
				b.WriteString("\"\n\"")
			} else {
				b.WriteByte('\\')
				b.WriteRune(r)
			}
		}
	}
	if s == "" {
		b.WriteString(`""`)
	}
	out["mixed"] = b.String()
	return out
}

var c15Modes = []struct {
	name string
	m    interp.ExpMode
}{{"default", 0}, {"quote", interp.Quote}, {"literal", interp.Literal}, {"arith", interp.Arith}, {"assign", interp.Assign}, {"assign+literal", interp.Assign | interp.Literal}}

// c15ExtraModes: every combination of the five mode bits that c15Modes and the plain Pattern pass do not cover.
var c15ExtraModes = func() []interp.ExpMode {
	base := map[interp.ExpMode]bool{interp.Pattern: true}
	for _, m := range c15Modes {
		base[m.m] = true
	}
	var out []interp.ExpMode
	for m := interp.ExpMode(0); m < 32; m++ {
		if !base[m] {
			out = append(out, m)
		}
	}
	return out
}()

func c15Env(s string, variant int) *interp.ExecEnv {
	env := interp.NewExecEnv("sh", "ARG1", "ARG 2", s)
	env.Set("HOME", "/HOMEMARK")
	env.Set("a", "VALUE-OF-a")
	switch variant % 4 {
	case 0:
		env.Set("IFS", s+"a") // every character of s is an IFS character
	case 1:
		env.Unset("IFS")
	case 2:
		env.Set("IFS", "")
	default:
		env.Set("IFS", " \t\n*?[:/~$")
	}
	return env
}

func c15Variants(s string) []string {
	rs := []rune(s)
	seen := map[string]bool{s: true}
	var out []string
	add := func(t []rune) {
		if ts := string(t); !seen[ts] {
			seen[ts] = true
			out = append(out, ts)
		}
	}
	for i := range rs {
		add(append(append([]rune{}, rs[:i]...), rs[i+1:]...))
		for _, x := range []rune{'a', '*', '\\', 'z', ']'} {
			t := append([]rune{}, rs...)
			t[i] = x
			add(t)
		}
		t := append(append(append([]rune{}, rs[:i]...), 'a'), rs[i:]...)
		add(t)
	}
	add(append(append([]rune{}, rs...), 'a'))
	add(append(append([]rune{}, rs...), rs...))
	add(nil)
	return out
}

func c15Exec(c *core.Ctx, cs c15Case) {
	c15Setup(c)
	s := cs.S
	idx := int(c.Index())
	before := snapshotDir()
	for qname, qs := range c15Quotings(s, func(i int) int { return idx/7 + i*5 + i*i }) {
		src := "x " + qs
		key := fmt.Sprintf("%q via %s", s, qname)
		cmd, _, err := parser.ParseCommand("c15", src)
		if err != nil {
			c.Violation("parse", key, "source "+q(src)+" parses", err.Error(), "")
			continue
		}
		sc, ok := cmd.(*ast.Cmd)
		if !ok {
			c.Violation("parse", key, "a simple command", fmt.Sprintf("%T", cmd), "")
			continue
		}
		args := sc.Expr.(*ast.SimpleCmd).Args
		if len(args) != 2 {
			c.Violation("parse", key, "one argument word", fmt.Sprintf("%d words from %s", len(args)-1, q(src)), "")
			continue
		}
		for v := 0; v < 2; v++ {
			variant := idx + v
			for _, m := range c15Modes {
				env := c15Env(s, variant)
				snap := c11Snapshot(env)
				got, err := env.Expand(args[1], m.m)
				c.Eval(1)
				c.Count("expand/"+qname+"/"+m.name, 1)
				if err != nil || len(got) != 1 || got[0] != s {
					c.Violation("identity", fmt.Sprintf("%s mode=%s env=%d", key, m.name, variant%4), fmt.Sprintf("[%q]", s), fmt.Sprintf("%q err=%v", got, err), "source: "+q(src))
				}
				if !mapsEqual(snap, c11Snapshot(env)) {
					c.Violation("env-changed", fmt.Sprintf("%s mode=%s", key, m.name), "variable store unchanged", "changed", "")
				}
			}
			// the other 25 combinations of the five mode bits ("every ExpMode"): Literal
			// wins over Pattern, Pattern over the rest; without Pattern (or with Literal)
			// the result is [s], with it a pattern that matches s and nothing else.
			// Short strings see all of them, the others three per quoting in rotation.
			if v == 0 {
				for k, m := range c15ExtraModes {
					if utf8.RuneCountInString(s) > 2 && (k+idx+len(qname))%8 != 0 {
						continue
					}
					env := c15Env(s, variant)
					got, err := env.Expand(args[1], m)
					c.Eval(1)
					c.Count("expand-extra-modes", 1)
					mk := fmt.Sprintf("%s mode=%05b env=%d", key, int(m), variant%4)
					if m&interp.Literal != 0 || m&interp.Pattern == 0 {
						if err != nil || len(got) != 1 || got[0] != s {
							c.Violation("identity", mk, fmt.Sprintf("[%q]", s), fmt.Sprintf("%q err=%v", got, err), "source: "+q(src))
						}
						continue
					}
					if err != nil || len(got) != 1 {
						c.Violation("pattern", mk, "one pattern", fmt.Sprintf("%q err=%v", got, err), "")
						continue
					}
					pp := refpat.Parse(got[0])
					if pp.Class != refpat.OK || !pp.MatchWhole([]rune(s)) {
						c.Violation("pattern", mk, "a pattern matching exactly "+fmt.Sprintf("%q", s), fmt.Sprintf("%q", got[0]), "")
						continue
					}
					for _, t := range c15Variants(s) {
						if pp.MatchWhole([]rune(t)) {
							c.Violation("pattern", mk, "a pattern matching only "+fmt.Sprintf("%q", s), fmt.Sprintf("%q also matches %q", got[0], t), "")
							break
						}
					}
				}
			}
			// pattern mode: the result matches s and nothing else
			env := c15Env(s, variant)
			got, err := env.Expand(args[1], interp.Pattern)
			c.Eval(1)
			c.Count("expand/"+qname+"/pattern", 1)
			if err != nil || len(got) != 1 {
				c.Violation("pattern", key+" mode=pattern", "one pattern", fmt.Sprintf("%q err=%v", got, err), "")
				continue
			}
			pp := refpat.Parse(got[0])
			if pp.Class != refpat.OK || !pp.MatchWhole([]rune(s)) {
				c.Violation("pattern", key+" mode=pattern", "a pattern matching exactly "+fmt.Sprintf("%q", s), fmt.Sprintf("%q", got[0]), "")
				continue
			}
			for _, t := range c15Variants(s) {
				if pp.MatchWhole([]rune(t)) {
					c.Violation("pattern", key+" mode=pattern", "a pattern matching only "+fmt.Sprintf("%q", s), fmt.Sprintf("%q also matches %q", got[0], t), "")
					break
				}
			}
			// ... and go.sh's own matcher agrees: the pattern matches s as a whole and none of its edits
			whole := func(t string) (bool, error) {
				m, err := pattern.Match([]string{got[0]}, pattern.Prefix|pattern.Largest, t)
				if err != nil && err != pattern.NoMatch {
					return false, err
				}
				return err == nil && m == t, nil
			}
			if v != 0 {
				continue
			}
			c.Eval(1)
			if ok, err := whole(s); err != nil || !ok {
				c.Violation("pattern-own-matcher", key+" mode=pattern", fmt.Sprintf("pattern.Match(%q) matches %q as a whole", got[0], s), fmt.Sprintf("matched=%v err=%v", ok, err), "")
				continue
			}
			for _, t := range c15Variants(s) {
				if ok, _ := whole(t); ok && t != s {
					c.Violation("pattern-own-matcher", key+" mode=pattern", "matches only "+fmt.Sprintf("%q", s), fmt.Sprintf("pattern.Match(%q) also matches %q", got[0], t), "")
					break
				}
			}
		}
	}
	// evidence that the environment is adversarial: the unquoted spelling (when it
	// is a single plain word) expands to something else
	if s != "" && !strings.ContainsAny(s, " \t\n'\"\\$`#&|;<>(){}!") {
		if cmd, _, err := parser.ParseCommand("c15", "x "+s); err == nil {
			if sc, ok := cmd.(*ast.Cmd); ok {
				if a := sc.Expr.(*ast.SimpleCmd).Args; len(a) == 2 {
					if got, err := c15Env(s, idx).Expand(a[1], 0); err == nil && (len(got) != 1 || got[0] != s) {
						c.Count("unquoted-spelling-expands-differently", 1)
					}
				}
			}
		}
	}
	if after := snapshotDir(); after != before {
		c.Violation("fs-changed", fmt.Sprintf("%q", s), "directory unchanged", "changed", "")
	}
	c.Distinct(s)
	if idx%3001 == 0 {
		c.Sample(map[string]any{"s": s, "quotings": c15Quotings(s, func(i int) int { return idx/7 + i*5 + i*i })})
	}
}

func snapshotDir() string {
	es, _ := os.ReadDir(".")
	return fmt.Sprint(len(es))
}

func c15Gen(c *core.Ctx) {
	maxn := c.Pick(3, 4)
	enumStrings(c15Alpha, 0, maxn, func(s string, _ []int) {
		core.Do(c, c15Case{S: s, Kind: "exhaustive"}, c15Exec)
	})
	n := c.Pick(20000, 400000)
	extra := []string{"日本", "😀", " ", "\x7f", "\x01", "%", "^", "@", ",", ".", "-", "+", "0", "Z", "_"}
	for i := 0; i < n; i++ {
		if !c.Mine() {
			continue
		}
		r := c.Rand("rand", int64(i))
		var b strings.Builder
		for k := 1 + r.IntN(24); k > 0; k-- {
			if r.IntN(4) == 0 {
				b.WriteString(pick(r, extra))
			} else {
				b.WriteString(pick(r, c15Alpha))
			}
		}
		core.Run(c, c15Case{S: b.String(), Kind: "random"}, c15Exec)
	}
}

func init() {
	core.Register(&core.Engine{
		ID:          "C15",
		Level:       "exploration",
		Technique:   "runtime monitoring: identity oracle over exhaustive-short and random strings x 4 literal quotings x all 32 expansion-mode bit combinations in adversarial environments (IFS made of the string's own characters, a directory holding a file for every 1-2 symbol name), end to end through parser and Expand",
		Rule:        "a case is a string s; exhaustive over all strings of <=3 (thorough <=4) symbols of the 29-symbol alphabet {blank tab newline ' \" \\ $ ` * ? [ ] ~ # & | ; < > ( ) { } ! a = : / é}, then random strings of <=24 symbols with multi-byte and control characters; each is written in single, double, backslash and mixed quoting, parsed, and expanded in modes default/Quote/Literal/Arith/Assign/Assign|Literal (result must be [s]) and Pattern (result must match s and none of its one-rune edits, judged by refpat); the remaining 25 combinations of the five mode bits are judged the same way (Literal wins over Pattern, Pattern over the rest): all of them for strings of <=2 symbols, three per quoting in rotation otherwise, under 2 of 4 environments. distinct_nontrivial = distinct strings.",
		Assumptions: []string{"valid UTF-8 strings without NUL", "refpat judges the Pattern-mode clause"},
		Gen:         c15Gen,
		Replay:      func(c *core.Ctx, raw []byte) { core.ReplayOne(c, raw, c15Exec) },
		Exhaustive:  func(string) bool { return true },
		Finish: func(m *core.Merged) string {
			if m.Counters["unquoted-spelling-expands-differently"] < 100 {
				return "the environment was not adversarial enough (unquoted spellings rarely expanded differently)"
			}
			return ""
		},
	})
}
