package props

import (
	"fmt"
	"strings"

	"github.com/hattya/go.sh/ast"

	"verif/core"
	"verif/gen"
	"verif/sched"
	"verif/skel"
)

// C08 — here-document bodies are attached to the right redirection, verbatim.

type c08Case struct {
	Prog *gen.Program `json:"prog"`
	Seed uint64       `json:"seed"`
	Kind string       `json:"kind"`
}

func nonLitParts(ps []gen.Part) int {
	n := 0
	for _, p := range ps {
		if p.K != "lit" {
			n++
		}
	}
	return n
}

// c08Check compares the here-documents of a parsed tree with the generator's.
func c08Check(c *core.Ctx, key string, cmds []ast.Command, want []*gen.Heredoc, sched string) bool {
	var got []*ast.Redir
	walkRedirs(cmds, func(r *ast.Redir) {
		if r.Op == "<<" || r.Op == "<<-" {
			got = append(got, r)
		}
	})
	if len(got) != len(want) {
		c.Violation("count", key, fmt.Sprintf("%d here-documents", len(want)), fmt.Sprint(len(got)), "schedule: "+sched)
		return false
	}
	for j, h := range want {
		r := got[j]
		c.Eval(1)
		site := "unquoted"
		if h.Quoted {
			site = "quoted"
		}
		op := "<<"
		if h.Dash {
			op = "<<-"
		}
		c.Count("heredocs/"+site+"/"+op+"/"+sched, 1)
		if len(h.Lines) > 0 && len(h.Lines[0]) == 0 || (len(h.Lines) > 0 && gen.WordText(&gen.Word{Parts: h.Lines[0]}) == "") {
			c.Count("heredocs/empty-first-line", 1)
		}
		if h.TabTerm {
			c.Count("heredocs/tab-indented-terminator", 1)
			if h.MoreTabs > 0 {
				c.Count("heredocs/terminator-indented-by-several-tabs", 1)
			}
		}
		wb := gen.BodyText(h)
		wd := h.DelimText
		if h.TabTerm {
			wd = strings.Repeat("\t", 1+h.MoreTabs) + wd
		}
		switch {
		case r.Op != op:
			c.Violation("operator", key, op, r.Op, fmt.Sprintf("here-document %d", j))
		case skel.Unparse(r.Word) != gen.WordText(h.Delim):
			c.Violation("delimiter-word", key, gen.WordText(h.Delim), skel.Unparse(r.Word), fmt.Sprintf("here-document %d", j))
		case skel.Unparse(r.Heredoc) != wb:
			c.Violation("body", key, fmt.Sprintf("%q", wb), fmt.Sprintf("%q", skel.Unparse(r.Heredoc)), fmt.Sprintf("here-document %d (%s, %s) schedule %s", j, site, op, sched))
		case skel.Unparse(r.Delim) != wd:
			c.Violation("delimiter-line", key, fmt.Sprintf("%q", wd), fmt.Sprintf("%q", skel.Unparse(r.Delim)), fmt.Sprintf("here-document %d", j))
		default:
			// expansion scanning iff no part of the delimiter was quoted
			nonLit := 0
			for _, p := range r.Heredoc {
				if _, ok := p.(*ast.Lit); !ok {
					nonLit++
				}
			}
			wantNonLit := 0
			if !h.Quoted {
				for _, ln := range h.Lines {
					wantNonLit += nonLitParts(ln)
				}
			}
			if nonLit != wantNonLit {
				c.Violation("expansion-scanning", key, fmt.Sprintf("%d expansion/escape parts in the body (%s delimiter)", wantNonLit, site), fmt.Sprint(nonLit), fmt.Sprintf("here-document %d", j))
			} else {
				continue
			}
		}
		return false
	}
	return true
}

func c08Exec(c *core.Ctx, cs c08Case) {
	want := gen.Heredocs(cs.Prog)
	for l := 0; l < 3; l++ {
		var pol gen.Policy
		switch l {
		case 0:
			pol = gen.Canon
		case 1:
			pol = gen.Tight
		default:
			pol, _ = layoutPolicy(randFor(cs.Seed, uint64(l)), false)
		}
		src := gen.Join(gen.Tokens(cs.Prog, true), pol).Text
		cmds, _, err := parseAll("c08", src)
		key := q(src)
		if err != nil {
			c.Violation("rejected", key, "accepted", err.Error(), "")
			return
		}
		if !c08Check(c, key, cmds, want, "default") {
			return
		}
		if l == 0 {
			for _, mode := range []string{"parser-first", "lexer-first", "lexer-first+held-at-heredoc-wait"} {
				cmds2, _, err2, res := parseSched(src, sched.Mode{Default: mode != "parser-first", HoldPopWait: mode == "lexer-first+held-at-heredoc-wait"})
				c.Count("sched/"+mode+"/runs", 1)
				c.Count("sched/"+mode+"/forced-releases", res.Forced)
				if res.PopWaitBeforePush {
					c.Count("sched/"+mode+"/lexer-reached-heredoc-wait-before-parser-push", 1)
				}
				if res.PushBeforePopWait {
					c.Count("sched/"+mode+"/parser-pushed-before-lexer-wait", 1)
				}
				c.DistinctHash(res.Trace)
				if err2 != nil {
					c.Violation("rejected", key, "accepted under schedule "+mode, err2.Error(), "")
					return
				}
				if !c08Check(c, key, cmds2, want, mode) {
					return
				}
				if skel.Dump(cmds2) != skel.Dump(cmds) {
					c.Violation("schedule-dependent", key, "the same tree under every schedule", "tree under "+mode+" differs", firstDiff(skel.Dump(cmds), skel.Dump(cmds2)))
					return
				}
			}
		}
	}
	c.Count(fmt.Sprintf("commands-with-%d-heredocs", min(len(want), 3)), 1)
	if len(want) > 0 {
		c.Distinct(gen.Join(gen.Tokens(cs.Prog, true), nil).Text)
	}
	if c.Index()%199 == 0 {
		c.Sample(map[string]any{"source": gen.Join(gen.Tokens(cs.Prog, true), nil).Text, "heredocs": len(want)})
	}
}

func c08Gen(c *core.Ctx) {
	n := c.Pick(4000, 600000)
	for i := 0; i < n; i++ {
		if !c.Mine() {
			continue
		}
		r := c.Rand("prog", int64(i))
		o := gen.Options{Budget: 2 + r.IntN(10), Heredocs: true, HDBias: true, MaxHD: 1 + r.IntN(3), Flat: i%4 == 1, LeadHD: i%4 == 2}
		p := gen.New(r, o).Program()
		kind := "generated"
		if i%5 == 3 {
			// the whole command inside a command substitution: its here-documents are
			// read by a nested lexer
			o.LeadHD, o.NoNested, o.Budget, o.InParen = true, i%2 == 1, 1+r.IntN(4), true
			inner := gen.New(r, o).Program().List
			inner.Top = false
			inner.Items[len(inner.Items)-1].NL = true
			k := "cmdsub"
			if o.NoNested {
				k = "bq"
			}
			outer := gen.Simple("echo")
			outer.Post = append(outer.Post, gen.Item{W: gen.W(gen.Part{K: k, List: inner})}, gen.Item{W: gen.LW("tail")})
			p = &gen.Program{List: &gen.CList{Top: true, Items: []*gen.AndOr{gen.AO(gen.Pipe(outer))}}}
			kind = "inside-command-substitution"
		}
		core.Run(c, c08Case{Prog: p, Seed: uint64(c.Seed)*2741 + uint64(i), Kind: kind}, c08Exec)
	}
}

func init() {
	core.Register(&core.Engine{
		ID:          "C08",
		Level:       "exploration",
		Technique:   "runtime monitoring: generator-known expectation for every here-document (operator, delimiter word, body bytes, delimiter line, expansion scanning), body text reconstructed with the harness's own unparser; each command parsed under the default scheduler and under both extreme forced schedules of the lexer/parser pair (verif hooks), race detector on",
		Rule:        "(terminator lines of <<- here-documents are indented by 0, 1 or 2-4 tabs) a case is a generated command carrying 1-3 here-documents at any redirection site (prefix/suffix of simple commands, after compound commands and function bodies, inside pipelines, lists, subshells, groups, if/loop conditions and bodies, case items, command substitutions), delimiters plain / 'quoted' / \"quoted\" / \\escaped / partially quoted / multi-byte, << and <<- (with and without tab-indented terminator), 0-4 body lines from pools with empty first lines, delimiter prefixes/suffixes, tab-indented lines, $x ${x:-y} $(c) `c` $((1+2)) \\$ \\\\ quotes and multi-byte text; 3 layouts; canonical layout also under parser-first and lexer-first schedules. distinct_nontrivial = distinct commands with >=1 here-document.",
		Assumptions: []string{"a backslash at the end of a body line of an unquoted here-document is a line continuation and is not generated"},
		Race:        true,
		Gen:         c08Gen,
		Replay:      func(c *core.Ctx, raw []byte) { core.ReplayOne(c, raw, c08Exec) },
		Finish: func(m *core.Merged) string {
			for _, k := range []string{"heredocs/quoted/<</default", "heredocs/unquoted/<</default", "heredocs/quoted/<<-/default", "heredocs/unquoted/<<-/default", "heredocs/unquoted/<</parser-first", "heredocs/unquoted/<</lexer-first", "heredocs/empty-first-line", "heredocs/tab-indented-terminator", "sched/lexer-first/lexer-reached-heredoc-wait-before-parser-push", "sched/parser-first/parser-pushed-before-lexer-wait", "commands-with-2-heredocs", "commands-with-3-heredocs"} {
				if m.Counters[k] < 20 {
					return "too few observations of " + k
				}
			}
			return ""
		},
	})
}
