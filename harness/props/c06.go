package props

import (
	"errors"
	"fmt"
	"io"
	"runtime"
	"strings"
	"sync"
	"sync/atomic"
	"time"
	"unicode/utf8"

	"github.com/hattya/go.sh/ast"
	"github.com/hattya/go.sh/interp"
	"github.com/hattya/go.sh/parser"

	"verif/core"
	"verif/gen"
	"verif/mon"
	"verif/sched"
	"verif/skel"
)

// C06 — results are schedule independent; nothing races or keeps running
// after return.

type c06Case struct {
	Src   string            `json:"src"`
	Arith bool              `json:"arith,omitempty"` // Src is an arithmetic expression
	Via   string            `json:"via,omitempty"`   // eval | expand
	Store map[string]string `json:"store,omitempty"` // initial variables for arithmetic
	Fault int               `json:"fault,omitempty"` // parser: reader fails at this rune (0 = no fault)
	Kind  string            `json:"kind"`
}

// trackScanner exposes its position and notices calls made after the call
// under test has returned.
type trackScanner struct {
	rs       []rune
	i        int
	last     bool
	failAt   int
	err      error
	returned atomic.Bool
	after    atomic.Int64
	pos      atomic.Int64
}

func (s *trackScanner) ReadRune() (rune, int, error) {
	if s.returned.Load() {
		s.after.Add(1)
	}
	if s.failAt > 0 && s.i >= s.failAt {
		s.last = false
		return 0, 0, s.err
	}
	if s.i >= len(s.rs) {
		s.last = false
		return 0, 0, io.EOF
	}
	r := s.rs[s.i]
	s.i++
	s.pos.Store(int64(s.i))
	s.last = true
	return r, utf8.RuneLen(r), nil
}

func (s *trackScanner) UnreadRune() error {
	if s.returned.Load() {
		s.after.Add(1)
	}
	if !s.last {
		return errors.New("nothing to unread")
	}
	s.i--
	s.pos.Store(int64(s.i))
	s.last = false
	return nil
}

type c06Outcome struct {
	result   string // everything the caller can see
	consumed int64
	res      sched.Result
}

var c06Base int64

// runParser executes one parse under a mode (nil = free running) and judges the
// per-run monitors (reads after return, goroutines left, consumption stable).
func c06RunParser(c *core.Ctx, cs c06Case, key string, mode *sched.Mode, stress func()) (c06Outcome, bool) {
	sc := &trackScanner{rs: []rune(cs.Src), failAt: cs.Fault, err: fmt.Errorf("injected read failure at %d", cs.Fault)}
	var cmds []ast.Command
	var comments []*ast.Comment
	var err error
	var atReturn int64
	call := func() {
		cmds, comments, err = parser.ParseCommands(nil, "c06", sc)
		atReturn = sc.pos.Load()
		sc.returned.Store(true)
	}
	var res sched.Result
	if mode != nil {
		res = sched.RunParser(*mode, call)
	} else {
		if stress != nil {
			stress()
		}
		call()
	}
	c.Eval(1)
	alive := mon.Quiesce(300 * time.Millisecond)
	ok := true
	if alive > c06Base {
		c.Violation("goroutine-left", key, "every lexer goroutine started by the call has exited when it returns", fmt.Sprintf("%d still alive 300ms after return", alive-c06Base), modeStr(mode))
		ok = false
	}
	c06Base = alive
	if n := sc.after.Load(); n > 0 {
		c.Violation("reader-touched-after-return", key, "no ReadRune/UnreadRune after ParseCommands returned", fmt.Sprintf("%d calls", n), modeStr(mode))
		ok = false
	}
	if q := sc.pos.Load(); q != atReturn {
		c.Violation("input-consumed-after-return", key, fmt.Sprintf("%d runes consumed at return", atReturn), fmt.Sprintf("%d once quiescent", q), modeStr(mode))
		ok = false
	}
	es := "<nil>"
	if err != nil {
		es = fmt.Sprintf("%T:%v", err, err)
	}
	out := c06Outcome{result: skel.Dump(cmds) + "|" + fmt.Sprint(commentTextsOf(comments)) + "|" + es + fmt.Sprintf("|consumed=%d", atReturn), consumed: atReturn, res: res}
	if mode != nil {
		c.Count("schedule-runs", 1)
		c.Count("forced-releases", res.Forced)
		c.Count("lexers-started", res.LexersStarted)
		c.Count("lexers-exited", res.LexersExited)
		c.DistinctHash(res.Trace ^ sched.Hash64(cs.Src))
	}
	return out, ok
}

func modeStr(m *sched.Mode) string {
	if m == nil {
		return "schedule: free running (stress)"
	}
	var b strings.Builder
	for _, v := range m.Vector {
		if v {
			b.WriteByte('L')
		} else {
			b.WriteByte('P')
		}
	}
	return fmt.Sprintf("schedule: vector=%s default-lexer-first=%v late-return=%v hold-heredoc-wait=%v", b.String(), m.Default, m.LateReturn, m.HoldPopWait)
}

func c06RunArith(c *core.Ctx, cs c06Case, mode *sched.Mode, stress func()) c06Outcome {
	env := c11Env(cs.Store)
	var n int
	var err error
	var fields []string
	call := func() {
		if cs.Via == "expand" {
			cmd, _, perr := parser.ParseCommand("c06", "x $(("+cs.Src+"))")
			if perr != nil {
				err = perr
				return
			}
			fields, err = env.Expand(cmd.(*ast.Cmd).Expr.(*ast.SimpleCmd).Args[1], 0)
		} else {
			n, err = env.Eval(cs.Src)
		}
	}
	var res sched.Result
	if mode != nil {
		res = sched.RunInterp(*mode, call)
	} else {
		if stress != nil {
			stress()
		}
		call()
	}
	c.Eval(1)
	alive := mon.Quiesce(300 * time.Millisecond)
	if alive > c06Base {
		c.Violation("goroutine-left", cs.Src, "every lexer goroutine has exited when Eval returns", fmt.Sprintf("%d still alive", alive-c06Base), modeStr(mode))
	}
	c06Base = alive
	r := fmt.Sprintf("fields=%q err=%v store=%s", fields, err, storeStr(pickVars(c11Snapshot(env))))
	if err == nil {
		r += fmt.Sprintf(" n=%d", n)
	}
	if mode != nil {
		c.Count("schedule-runs", 1)
		c.Count("forced-releases", res.Forced)
		c.DistinctHash(res.Trace ^ sched.Hash64(cs.Src))
	}
	return c06Outcome{result: r, res: res}
}

// modes enumerates the schedules for an input with h hand-offs.
func c06Modes(h int, seed uint64, exhaustiveUpTo int) []sched.Mode {
	var out []sched.Mode
	add := func(v []bool, def bool) {
		for _, late := range []bool{false, true} {
			out = append(out, sched.Mode{Vector: v, Default: def, LateReturn: late})
		}
		if len(v) == 0 || len(out)%16 == 2 {
			out = append(out, sched.Mode{Vector: v, Default: def, HoldPopWait: true})
		}
	}
	if h <= exhaustiveUpTo {
		for m := 0; m < 1<<h; m++ {
			v := make([]bool, h)
			for i := range v {
				v[i] = m&(1<<i) != 0
			}
			add(v, false)
		}
		return out
	}
	add(nil, false)
	add(nil, true)
	alt := make([]bool, h)
	for i := range alt {
		alt[i] = i%2 == 0
	}
	add(alt, false)
	for i := 0; i < h && i < 40; i++ {
		v := make([]bool, h)
		v[i] = true
		add(v, false)
		w := make([]bool, h)
		for j := range w {
			w[j] = j != i
		}
		add(w, true)
	}
	r := randFor(seed, 17)
	for k := 0; k < 32; k++ {
		v := make([]bool, h)
		for i := range v {
			v[i] = r.IntN(2) == 0
		}
		add(v, r.IntN(2) == 0)
	}
	return out
}

var stressState atomic.Uint64

func stressCallbacks() func() {
	return func() {
		yield := func() {
			x := stressState.Add(0x9E3779B97F4A7C15)
			x ^= x >> 29
			switch x % 8 {
			case 0, 1:
				runtime.Gosched()
			case 2:
				for i := 0; i < int(x>>40)%400; i++ {
					_ = i
				}
			}
		}
		pcb := func(ev int, l, aux uintptr) { yield() }
		icb := func(ev int, l uintptr) { yield() }
		mon.ParserCallback.Store(&pcb)
		mon.InterpCallback.Store(&icb)
	}
}

func c06Exec(c *core.Ctx, cs c06Case) {
	key := q(cs.Src)
	if cs.Fault > 0 {
		key += fmt.Sprintf(" (reader fails at rune %d)", cs.Fault)
	}
	if cs.Arith {
		key = fmt.Sprintf("arith %s via %s store=%s", q(cs.Src), cs.Via, storeStr(cs.Store))
	}
	run := func(m *sched.Mode, stress func()) (c06Outcome, bool) {
		if cs.Arith {
			return c06RunArith(c, cs, m, stress), true
		}
		return c06RunParser(c, cs, key, m, stress)
	}
	if !mon.Enabled {
		c06RacePhase(c, cs, key)
		return
	}
	// reference: parser-first everywhere
	ref, ok := run(&sched.Mode{}, nil)
	if !ok {
		return
	}
	h := ref.res.Handoffs
	c.Count(fmt.Sprintf("inputs/%s", cs.Kind), 1)
	c.Max("max_handoffs", int64(h))
	modes := c06Modes(h, uint64(c.Index()), c.Pick(7, 10))
	for i := range modes {
		m := modes[i]
		got, ok := run(&m, nil)
		if !ok {
			return
		}
		if got.result != ref.result {
			c.Violation("schedule-dependent-result", key, ref.result, got.result, "reference: all parser-first; this run: "+modeStr(&m)+"; "+firstDiff(ref.result, got.result))
			return
		}
	}
	// stress: free running with random yields at the hook points
	reps := c.Pick(30, 200)
	defer mon.ParserCallback.Store(nil)
	defer mon.InterpCallback.Store(nil)
	for _, procs := range []int{1, 2, 16} {
		old := runtime.GOMAXPROCS(procs)
		for k := 0; k < reps; k++ {
			got, ok := run(nil, stressCallbacks())
			if !ok || got.result != ref.result {
				if ok {
					c.Violation("schedule-dependent-result", key, ref.result, got.result, fmt.Sprintf("stress run %d with GOMAXPROCS=%d; %s", k, procs, firstDiff(ref.result, got.result)))
				}
				runtime.GOMAXPROCS(old)
				return
			}
			c.Count("stress-runs", 1)
		}
		runtime.GOMAXPROCS(old)
	}
	if c.Index()%37 == 0 {
		c.Sample(map[string]any{"input": cs.Src, "kind": cs.Kind, "handoffs": h, "schedules": len(modes), "result": trunc300(ref.result)})
	}
}

// c06RacePhase runs in workers started without hooks: go.sh runs exactly as it
// is (a hook callback would synchronise the two goroutines and hide races from
// the happens-before based detector); a race report kills the worker and is
// attributed by the driver.  Results must also agree between repetitions.
func c06RacePhase(c *core.Ctx, cs c06Case, key string) {
	defer c06Parallel(c, cs, key)
	reps := c.Pick(60, 400)
	ref := ""
	for _, procs := range []int{16, 2} {
		old := runtime.GOMAXPROCS(procs)
		for k := 0; k < reps; k++ {
			var got string
			if cs.Arith {
				got = c06RunArith(c, cs, nil, nil).result
			} else {
				sc := &trackScanner{rs: []rune(cs.Src), failAt: cs.Fault, err: fmt.Errorf("injected read failure at %d", cs.Fault)}
				cmds, comments, err := parser.ParseCommands(nil, "c06", sc)
				at := sc.pos.Load()
				sc.returned.Store(true)
				es := "<nil>"
				if err != nil {
					es = fmt.Sprintf("%T:%v", err, err)
				}
				got = skel.Dump(cmds) + "|" + fmt.Sprint(commentTextsOf(comments)) + "|" + es + fmt.Sprintf("|consumed=%d", at)
				c.Eval(1)
				if k%8 == 7 {
					time.Sleep(50 * time.Microsecond)
					if n := sc.after.Load(); n > 0 {
						c.Violation("reader-touched-after-return", key, "no ReadRune/UnreadRune after ParseCommands returned", fmt.Sprintf("%d calls", n), "hook-free run")
						runtime.GOMAXPROCS(old)
						return
					}
				}
			}
			c.Count("race-phase-runs(hooks off)", 1)
			if ref == "" {
				ref = got
			} else if got != ref {
				c.Violation("schedule-dependent-result", key, ref, got, fmt.Sprintf("hook-free run %d, GOMAXPROCS=%d; %s", k, procs, firstDiff(ref, got)))
				runtime.GOMAXPROCS(old)
				return
			}
		}
		runtime.GOMAXPROCS(old)
	}
}

// c06Once is one call on private arguments (own reader, own ExecEnv) and
// everything the caller can see of it, as one string.
func c06Once(cs c06Case) string {
	if cs.Arith {
		env := c11Env(cs.Store)
		var n int
		var err error
		var fields []string
		if cs.Via == "expand" {
			cmd, _, perr := parser.ParseCommand("c06", "x $(("+cs.Src+"))")
			if perr != nil {
				return "parse: " + perr.Error()
			}
			fields, err = env.Expand(cmd.(*ast.Cmd).Expr.(*ast.SimpleCmd).Args[1], 0)
		} else {
			n, err = env.Eval(cs.Src)
		}
		r := fmt.Sprintf("fields=%q err=%v store=%s", fields, err, storeStr(pickVars(c11Snapshot(env))))
		if err == nil {
			r += fmt.Sprintf(" n=%d", n)
		}
		return r
	}
	sc := &trackScanner{rs: []rune(cs.Src), failAt: cs.Fault, err: fmt.Errorf("injected read failure at %d", cs.Fault)}
	cmds, comments, err := parser.ParseCommands(nil, "c06", sc)
	at := sc.pos.Load()
	es := "<nil>"
	if err != nil {
		es = fmt.Sprintf("%T:%v", err, err)
	}
	return skel.Dump(cmds) + "|" + fmt.Sprint(commentTextsOf(comments)) + "|" + es + fmt.Sprintf("|consumed=%d", at)
}

// c06Parallel: the same call made by several goroutines at once, each on its
// own arguments.  The calls share nothing the caller gave them, so each must
// return what the call returns when it runs alone; state kept at package level
// by the lexer or parser shows as a wrong result here and as a race report
// (hook-free workers run under the race detector).
func c06Parallel(c *core.Ctx, cs c06Case, key string) {
	ref := c06Once(cs)
	const P = 4
	reps := c.Pick(12, 60)
	var wg sync.WaitGroup
	var bad [P]string
	var n [P]int
	for g := 0; g < P; g++ {
		wg.Add(1)
		go func(g int) {
			defer wg.Done()
			for k := 0; k < reps; k++ {
				n[g]++
				if got := c06Once(cs); got != ref && bad[g] == "" {
					bad[g] = got
				}
			}
		}(g)
	}
	wg.Wait()
	for g := 0; g < P; g++ {
		c.Eval(n[g])
		c.Count("parallel-calls(hooks off)", n[g])
		if bad[g] != "" {
			c.Violation("result-depends-on-concurrent-calls", key, ref, bad[g], fmt.Sprintf("%d goroutines make the same call on private arguments; %s", P, firstDiff(ref, bad[g])))
			return
		}
	}
}

func trunc300(s string) string {
	if len(s) > 300 {
		return s[:300] + "…"
	}
	return s
}

var c06LexErrs = []string{"'x", `"${`, "$(", "`", "${x", "$((1", `"`, "${x:", "<<E"}
var c06BadToks = []string{")", ";;", "fi", "}", "done", "then", "|", "&&", "(", "esac", "do", ";"}

func c06Gen(c *core.Ctx) {
	n := c.Pick(40, 1200)
	emit := func(src, kind string) {
		core.Do(c, c06Case{Src: src, Kind: kind}, c06Exec)
	}
	for i := 0; i < n; i++ {
		r := c.Rand("prog", int64(i))
		o := gen.Options{Budget: 1 + r.IntN(5), Heredocs: i%3 == 0, Flat: i%2 == 0}
		p := gen.New(r, o).Program()
		toks := gen.Tokens(p, true)
		rd := gen.Join(toks, nil)
		if len(toks) > 40 {
			continue
		}
		emit(rd.Text, "valid")
		emit(rd.Text+"next line\nand more\n", "valid+following-lines")
		// one syntax error at a token index, optionally followed by a lexical error
		for k := 0; k < 3; k++ {
			i := r.IntN(len(toks))
			bad := pick(r, c06BadToks)
			pre := rd.Text[:toks[i].Off]
			post := rd.Text[toks[i].Off:]
			emit(pre+bad+" "+post, "parser-error")
			lx := pick(r, c06LexErrs)
			// a lexical error alone (the tokens scanned before it may already be on their way)
			emit(pre+lx+" "+post, "lexer-error")
			// the lexical error one or two tokens later
			j := min(i+1+r.IntN(2), len(toks)-1)
			emit(rd.Text[:toks[i].Off]+bad+" "+rd.Text[toks[i].Off:toks[j].Off]+lx+" "+rd.Text[toks[j].Off:], "parser-error-then-lexer-error")
			emit(rd.Text[:toks[i].Off]+lx+" "+rd.Text[toks[i].Off:toks[j].Off]+bad+" "+rd.Text[toks[j].Off:], "lexer-error-then-parser-error")
			emit(pre+bad+" "+bad+" "+lx, "two-errors-at-end")
		}
		// a syntax error with the reader failing in one of the next tokens
		for k := 0; k < 3; k++ {
			i := r.IntN(len(toks))
			bad := pick(r, c06BadToks)
			src := rd.Text[:toks[i].Off] + bad + " " + rd.Text[toks[i].Off:]
			at := len([]rune(rd.Text[:toks[i].Off]+bad)) + 1 + r.IntN(8)
			if at < len([]rune(src)) {
				core.Do(c, c06Case{Src: src, Fault: at, Kind: "parser-error+read-fault"}, c06Exec)
			}
		}
		// reader faults
		rs := []rune(rd.Text)
		for k := 0; k < 2 && len(rs) > 1; k++ {
			core.Do(c, c06Case{Src: rd.Text, Fault: 1 + r.IntN(len(rs)-1), Kind: "read-fault"}, c06Exec)
		}
	}
	for _, s := range []string{"a <<E 'b", "a <<E \"b", "a <<E ${x", "cat <<E $(", "a <<E `\n)    ${}", "a <<E $(\n)    ${}", "a <<E; 'b", "a <<-E <<F 'b\n", "{ a <<E 'b\n}", "echo ${x", "echo 'x", "f \"x", "a b ${x", "a=1 b $(", "a; b ${", "a `x", "echo $((1", "a | | $(", "a ) 'x", "a ;; \"${", "fi ${x", "a | | b c d e", "cat <<E <<F\nx\nE\ny\nF\n", "echo $(cat <<E\nx\nE\n) $(cat <<F\ny\nF\n)\n", "a `cat <<E\nx\nE\n` b\n", "{ cat <<E\nx\nE\n}\n", "cat <<E\nx\n", "echo $(a $(b) `c`) $((1+2))", "echo $(a | | b) 'x", "echo `a ) b` \"", "if a; then b; fi; )", "a <<E; b ) c\nx\nE\n", "$(( 1 ", "${x:-$(a | )}", "a\nb\n", "(a; b) | c & d", "{ a; } }", "for x in a b; do c; done done"} {
		emit(s, "dedicated")
	}
	// a here-document is pending and the parser rejects a later token of the operator
	// line: whether the lexer still reads the body (and which error is returned, how
	// much is consumed) must not depend on who reaches the end of the line first
	for _, head := range []string{"cat <<E", "cat <<-E <<F", "a | cat <<'E'", "x=1 cat <<E >f"} {
		for _, tail := range []string{" & ;", " ; ;", " | ;", " && ;", " ; )", " & )", " )", " ; }", " ; fi", " ; done", " ; then", " ; do", " ; esac", " ;;", " & ;;", " | |", " & &", " ; ; # c", " & ; #"} {
			for _, rest := range []string{"", "\n", "\nbody $x\nE\nF\nnext\n", "\nbody\n"} {
				emit(head+tail+rest, "heredoc-pending+parser-error")
			}
		}
	}
	for _, s := range []string{"echo $(cat <<E & ; )", "echo $(cat <<E & ;\nb\nE\n) x\n", "echo `cat <<E & ;`", "echo `cat <<E ; ;\nb\nE\n` x\n", "{ cat <<E & ; }", "{ cat <<E & ;\nb\nE\n}\n", "( cat <<E | ; )\nb\nE\n", "if cat <<E & ; then b; fi\nb\nE\n", "f() { cat <<E ; ; }\nb\nE\n", "echo \"$(cat <<E & ;\nb\nE\n)\"\n", "cat <<E $(a & ;) \nb\nE\n", "cat <<E & ; # one\nbody # two\nE\n# three\necho next\n"} {
		emit(s, "heredoc-pending+parser-error")
	}
	// arithmetic: expressions with 0, 1 and >=2 faults, through Eval and Expand
	arith := []string{"1 + 2", "x = 5", "1 1 $", "08 + 1/0", "(1=2) + (y=7)", "x = 1 +", "1/0 + (y=8)", "(y=8) + 1/0", "x++ + ++y", "1 ? x=2 : (y=3)", "0 && (x=1)", "1 || 1/0", "a b", "1 +* 2", "$", "((1)", "1 << -1", "x = y = z = 4", "y += x++ * 2", "09", "z = 1 1", "(x=1) , 2", "x++ @", "(x = 1) @", "(x += 1)@", "y = 2 #", "x = 5 $", "(x = 1) + (y = 2) .", "++x ]", "x y @", "1 2 3 $ 4", "(1) (2) #", "a b c @ d", "1 1 1 1 1 1 $", "2 2 `"}
	for i, e := range arith {
		for _, via := range []string{"eval", "expand"} {
			core.Do(c, c06Case{Src: e, Arith: true, Via: via, Store: map[string]string{"x": "3", "y": fmt.Sprint(i)}, Kind: "arith"}, c06Exec)
		}
	}
	na := c.Pick(60, 1500)
	for i := 0; i < na; i++ {
		if !c.Mine() {
			continue
		}
		r := c.Rand("arith", int64(i))
		e := c11RandTree(r, 2+r.IntN(2), pick(r, []string{"", "shortcircuit"}))
		src := strings.ReplaceAll(strings.ReplaceAll(raRender(e, r), "\n", " "), "\t", " ")
		if r.IntN(3) == 0 {
			src += pick(r, []string{" 1", " $", " +", " )", " 08", " = 3"})
		}
		core.Run(c, c06Case{Src: src, Arith: true, Via: pick(r, []string{"eval", "eval", "expand"}), Store: c11RandStore(r), Kind: "arith-random"}, c06Exec)
	}
	_ = interp.IFS
}

func init() {
	core.Register(&core.Engine{
		ID:           "C06",
		Level:        "exploration",
		Technique:    "runtime monitoring: Go race detector + deterministic coarse schedule controller over the verif hooks (which goroutine runs its segment first after every token hand-off, late return of the caller) + stress runs with random yields at the hook points under GOMAXPROCS 1/2/16; self-comparison of everything the caller can observe across schedules; reader-after-return, consumed-input and goroutine-accounting monitors",
		Rule:         "a case is one input executed under many schedules (incl. the heredoc-pending+parser-error family: 4 heads with pending here-documents x 19 rejected line tails x 4 continuations, and 12 nested forms — whether the body is still read must not depend on who reaches the end of the line first): parser inputs = small generated programs (valid; followed by further lines; one misplaced token at a random index; a lexical error (unterminated quote / expansion) at a random index; a parser error followed by a lexical error and vice versa; two errors at the end; reader failing at a random rune) and 18 dedicated inputs; arithmetic inputs = 22 dedicated expressions with 0..3 faults and random expression trees (some made ill-formed), through Eval and through Expand of $((...)). Schedules: ALL 2^h coarse vectors x {normal, late return} for inputs with h<=7 (thorough h<=10) hand-offs, otherwise all-parser-first, all-lexer-first, alternating, single-bit flips and 32 random vectors; then 30 (thorough 200) free-running stress repetitions for each of GOMAXPROCS 1, 2, 16. Everything is built with -race. distinct_nontrivial = distinct (input, event trace) pairs, i.e. distinct interleavings of hook events actually executed.",
		Assumptions:  []string{"only hook-point interleavings are forced; between two hook points the race detector (happens-before based) covers unsynchronised accesses", "the runtime's random choice in select cannot be forced, only repeated (stress runs)"},
		Race:         true,
		GoDebug:      []string{"panicnil=1", "panicnil=1 VERIF_NOHOOKS=1"},
		CaseWatchdog: 120 * time.Second,
		Gen:          c06Gen,
		Replay:       func(c *core.Ctx, raw []byte) { core.ReplayOne(c, raw, c06Exec) },
		Finish: func(m *core.Merged) string {
			if m.Counters["schedule-runs"] < 5000 || m.Counters["stress-runs"] < 5000 || m.Counters["race-phase-runs(hooks off)"] < 5000 {
				return "too few schedule / stress runs"
			}
			if m.Counters["forced-releases"]*20 > m.Counters["schedule-runs"] {
				return fmt.Sprintf("%d forced releases in %d runs: the requested schedules were often not honoured", m.Counters["forced-releases"], m.Counters["schedule-runs"])
			}
			for _, k := range []string{"valid", "parser-error", "lexer-error", "parser-error-then-lexer-error", "lexer-error-then-parser-error", "read-fault", "parser-error+read-fault", "arith", "arith-random"} {
				if m.Counters["inputs/"+k] < 10 {
					return "too few inputs of kind " + k
				}
			}
			return ""
		},
	})
}
