package props

import (
	"encoding/json"
	"fmt"
	"math/rand/v2"
	"os"
	"os/exec"
	"sort"
	"strconv"
	"strings"

	"github.com/hattya/go.sh/ast"
	"github.com/hattya/go.sh/interp"
	"github.com/hattya/go.sh/parser"

	"verif/core"
	ra "verif/refarith"
	"verif/skel"
)

// C20 — the variable store behaves like a map with read-only specials; only
// assignments change it.  A plain map model is stepped in lock-step with one
// ExecEnv over a history of operations.

type c20Op struct {
	Op   string   `json:"op"`             // set unset get walk expand eval args opts
	Name string   `json:"name,omitempty"` // variable
	Val  string   `json:"val,omitempty"`
	Src  string   `json:"src,omitempty"`  // word source / arithmetic expression
	Args []string `json:"args,omitempty"` // new positional parameters
	Opts uint     `json:"opts,omitempty"`
}

type c20Case struct {
	Ops     []c20Op  `json:"ops"`
	Environ []string `json:"environ,omitempty"` // NAME=value entries put into the process environment before NewExecEnv
	Kind    string   `json:"kind"`
}

var c20Names = []string{"a", "A", "_b1", "IFS", "HOME", "@", "*", "#", "?", "-", "$", "!", "0", "1", "2", "10", "01", "00", "000", "99999999999999999999", "+1"}

// names that are positional by the documented rule (all digits, not \"0\") but whose
// numeric reading is odd: only Set / Unset / Walk are exercised on them
var c20OddPositional = map[string]bool{"00": true, "000": true, "99999999999999999999": true}
var c20Ordinary = []string{"a", "A", "_b1"}

type c20Model struct {
	vars map[string]string
	args []string // args[0] = $0
	opts interp.Option
}

func isSpecial(n string) bool {
	switch n {
	case "@", "*", "#", "?", "-", "$", "!", "0":
		return true
	}
	return false
}

func isPositional(n string) bool {
	if n == "" || n == "0" {
		return false
	}
	for _, r := range n {
		if r < '0' || r > '9' {
			return false
		}
	}
	return true
}

func optLetters(o interp.Option) string {
	// documented letters: a e (ignoreeof) m C f n (nolog) b u v (vi) x
	tbl := []struct {
		bit interp.Option
		l   string
	}{{interp.AllExport, "a"}, {interp.ErrExit, "e"}, {interp.Monitor, "m"}, {interp.NoClobber, "C"}, {interp.NoGlob, "f"}, {interp.NoExec, "n"}, {interp.Notify, "b"}, {interp.NoUnset, "u"}, {interp.Verbose, "v"}, {interp.XTrace, "x"}}
	s := ""
	for _, t := range tbl {
		if o&t.bit != 0 {
			s += t.l
		}
	}
	return s
}

// get mirrors the documented behaviour of Get: (value, set).
func (m *c20Model) get(n string) (string, bool) {
	switch n {
	case "#":
		return strconv.Itoa(len(m.args) - 1), true
	case "?":
		return "0", true
	case "-":
		return optLetters(m.opts), true // always set, possibly null
	case "$":
		return strconv.Itoa(os.Getpid()), true
	case "!":
		return "", false
	case "0":
		return m.args[0], true
	case "@", "*":
		v, ok := m.vars[n] // not retrievable through Get as parameters; never settable
		return v, ok
	}
	if isPositional(n) {
		i, _ := strconv.Atoi(n)
		if i < len(m.args) {
			return m.args[i], true
		}
		return "", false
	}
	v, ok := m.vars[n]
	return v, ok
}

func (m *c20Model) set(n, v string) {
	if isSpecial(n) || isPositional(n) {
		return
	}
	m.vars[n] = v
}

func c20Word(src string) (ast.Word, error) {
	cmd, _, err := parser.ParseCommand("c20", "x "+src)
	if err != nil {
		return nil, err
	}
	sc, ok := cmd.(*ast.Cmd)
	if !ok {
		return nil, fmt.Errorf("not a simple command: %T", cmd)
	}
	a := sc.Expr.(*ast.SimpleCmd).Args
	if len(a) != 2 {
		return nil, fmt.Errorf("%d words", len(a))
	}
	return a[1], nil
}

// modelExpand applies the assignment effect of one of the generated word forms.
// It returns whether an error is expected ("" = none, "?" = not predicted).
func (m *c20Model) expandEffect(op c20Op) (wantErr string) {
	n := op.Name
	v, set := m.get(n)
	null := !set || v == ""
	switch op.Val {
	case "plain":
		if !set && m.opts&interp.NoUnset != 0 && n != "@" && n != "*" {
			return "err" // nounset: an unset parameter is an error
		}
		return ""
	case ":-", ":+":
		return ""
	case ":=":
		if null {
			if isSpecial(n) || isPositional(n) {
				return "err"
			}
			m.set(n, "dflt")
		}
		return ""
	case "=":
		if !set {
			if isSpecial(n) || isPositional(n) {
				return "err"
			}
			m.set(n, "dflt")
		}
		return ""
	case ":?":
		if null {
			return "err"
		}
		return ""
	}
	return "?"
}

func (m *c20Model) arithEffect(expr *ra.Expr) (wantErr bool, skip bool) {
	st := ra.Store{}
	for _, n := range c20Ordinary {
		if v, ok := m.vars[n]; ok {
			st[n] = v
		}
	}
	o := ra.Eval(expr, st)
	if o.NotJudge != "" {
		return false, true
	}
	for _, n := range c20Ordinary {
		if v, ok := o.Store[n]; ok {
			m.vars[n] = v
		}
	}
	return o.Fault != "", false
}

func c20Arith(name, form string) (*ra.Expr, string) {
	x := &ra.Expr{K: ra.Var, Name: name}
	switch form {
	case "n=3":
		return &ra.Expr{K: ra.Assign, Op: "=", L: x, R: &ra.Expr{K: ra.Num, Lit: "3"}}, name + "=3"
	case "n++":
		return &ra.Expr{K: ra.PostInc, Op: "++", L: x}, name + "++"
	case "--n":
		return &ra.Expr{K: ra.PreInc, Op: "--", L: x}, "--" + name
	case "n+=1":
		return &ra.Expr{K: ra.Assign, Op: "+=", L: x, R: &ra.Expr{K: ra.Num, Lit: "1"}}, name + "+=1"
	case "1/0":
		return &ra.Expr{K: ra.Binary, Op: "/", L: &ra.Expr{K: ra.Num, Lit: "1"}, R: &ra.Expr{K: ra.Num, Lit: "0"}}, "1/0"
	case "n=1/0":
		return &ra.Expr{K: ra.Assign, Op: "=", L: x, R: &ra.Expr{K: ra.Binary, Op: "/", L: &ra.Expr{K: ra.Num, Lit: "1"}, R: &ra.Expr{K: ra.Num, Lit: "0"}}}, name + "=1/0"
	case "n":
		return x, name
	}
	panic("c20: arith form " + form)
}

// C20EnvironProbe is the body of the "environ-probe" child process: it prints
// what a fresh ExecEnv holds right after it has imported the environment the
// parent chose (entries a process can only inherit, such as "=x" or a name
// without "=", cannot be produced with os.Setenv).
func C20EnvironProbe() {
	env := interp.NewExecEnv("sh", "p1")
	var out struct {
		Vars     [][2]string `json:"vars"`
		EmptySet bool        `json:"empty_set"`
	}
	env.Walk(func(v interp.Var) { out.Vars = append(out.Vars, [2]string{v.Name, v.Value}) })
	_, out.EmptySet = env.Get("")
	sort.Slice(out.Vars, func(i, j int) bool { return out.Vars[i][0] < out.Vars[j][0] })
	json.NewEncoder(os.Stdout).Encode(out)
}

// c20EnvironRaw runs the probe under a hand-made environment block.
func c20EnvironRaw(c *core.Ctx, cs c20Case) {
	exe, err := os.Executable()
	if err != nil {
		c.Skip("no executable path")
		return
	}
	cmd := exec.Command(exe, "environ-probe")
	cmd.Env = cs.Environ
	raw, err := cmd.Output()
	var out struct {
		Vars     [][2]string `json:"vars"`
		EmptySet bool        `json:"empty_set"`
	}
	if err != nil || json.Unmarshal(raw, &out) != nil {
		c.Skip(fmt.Sprintf("probe failed: %v", err))
		return
	}
	c.Eval(1)
	key := fmt.Sprintf("inherited environment %q", cs.Environ)
	got := map[string]string{}
	for _, kv := range out.Vars {
		got[kv[0]] = kv[1]
		switch {
		case kv[0] == "":
			c.Violation("environ", key, "every variable has a name (an entry that starts with = names none)", fmt.Sprintf("Walk reports a variable with the empty name, value %q", kv[1]), "")
			return
		case isSpecial(kv[0]) || isPositional(kv[0]):
			c.Violation("environ", key, "special and positional parameters reflect Args / Opts only", fmt.Sprintf("Walk reports %q=%q right after NewExecEnv", kv[0], kv[1]), "")
			return
		}
	}
	if g, present := got["IFS"]; !present || g != " \t\n" {
		c.Violation("environ", key, `IFS=" \t\n" right after NewExecEnv`, fmt.Sprintf("%q (present=%v)", g, present), "")
		return
	}
	if out.EmptySet {
		c.Violation("environ", key, `Get("") reports unset`, "set", "")
		return
	}
	// well-formed entries whose name occurs once are imported as they are
	count := map[string]int{}
	for _, kv := range cs.Environ {
		if k, _, ok := strings.Cut(kv, "="); ok {
			count[k]++
		}
	}
	for _, kv := range cs.Environ {
		k, v, ok := strings.Cut(kv, "=")
		if !ok || k == "" || count[k] != 1 || isSpecial(k) || isPositional(k) || k == "IFS" {
			continue
		}
		if g, present := got[k]; !present || g != v {
			c.Violation("environ", key, fmt.Sprintf("%s=%q imported", k, v), fmt.Sprintf("%q (present=%v)", g, present), "")
			return
		}
	}
	c.Distinct("environ-raw", fmt.Sprint(len(out.Vars)))
}

// c20ArgsOwned: NewExecEnv is handed a slice with spare capacity (a sub-slice of
// a longer one, as callers that split a command line have).  It may not write
// into it, and a second environment made from the same slice may not change
// what the first one reports.
func c20ArgsOwned(c *core.Ctx, cs c20Case) {
	line := append([]string(nil), cs.Environ...)
	k := len(line) / 2
	args := line[:k]
	env := interp.NewExecEnv("sh", args...)
	c.Eval(1)
	key := fmt.Sprintf("NewExecEnv(\"sh\", line[:%d]...) with line = %q", k, cs.Environ)
	if fmt.Sprint(line) != fmt.Sprint(cs.Environ) {
		c.Violation("args", key, fmt.Sprintf("the caller's slice is left as it was: %q", cs.Environ), fmt.Sprintf("%q", line), "")
		return
	}
	snap := func(e *interp.ExecEnv) string {
		var b strings.Builder
		for i := 0; i <= k+1; i++ {
			v, set := e.Get(strconv.Itoa(i))
			fmt.Fprintf(&b, "$%d=%q/%v ", i, v.Value, set)
		}
		v, _ := e.Get("#")
		return b.String() + "$#=" + v.Value
	}
	want := snap(env)
	exp := "$0=\"sh\"/true "
	for i := 1; i <= k; i++ {
		exp += fmt.Sprintf("$%d=%q/true ", i, cs.Environ[i-1])
	}
	exp += fmt.Sprintf("$%d=\"\"/false $#=%d", k+1, k)
	if want != exp {
		c.Violation("args", key, exp, want, "")
		return
	}
	env2 := interp.NewExecEnv("sub", args...)
	env2.Set("x", "1")
	if got := snap(env); got != want {
		c.Violation("args", key+", then a second NewExecEnv(\"sub\", line[:k]...)", want, got, "the first environment's parameters changed")
		return
	}
	if fmt.Sprint(line) != fmt.Sprint(cs.Environ) {
		c.Violation("args", key+", then a second NewExecEnv", fmt.Sprintf("the caller's slice is left as it was: %q", cs.Environ), fmt.Sprintf("%q", line), "")
		return
	}
	c.Distinct("args-owned", fmt.Sprint(k))
}

func c20Exec(c *core.Ctx, cs c20Case) {
	if cs.Kind == "environ-raw" {
		c20EnvironRaw(c, cs)
		return
	}
	if cs.Kind == "args-owned" {
		c20ArgsOwned(c, cs)
		return
	}
	for _, kv := range cs.Environ {
		k, v, _ := strings.Cut(kv, "=")
		os.Setenv(k, v)
		defer os.Unsetenv(k)
	}
	env := interp.NewExecEnv("sh", "p1", "p2")
	env.Aliases["ll"] = "ls -l"
	m := &c20Model{vars: map[string]string{}, args: []string{"sh", "p1", "p2"}}
	env.Walk(func(v interp.Var) { m.vars[v.Name] = v.Value })
	// the environment only provides ordinary variables
	for n := range m.vars {
		if isSpecial(n) || isPositional(n) {
			c.Violation("environ", fmt.Sprintf("environment %q", cs.Environ), "special and positional parameters reflect Args / Opts only; Walk enumerates ordinary variables", fmt.Sprintf("Walk reports %q=%q right after NewExecEnv", n, m.vars[n]), "")
			return
		}
	}
	// IFS is set by the shell when it starts, whatever the environment says (XCU 2.5.3)
	if got, ok := m.vars["IFS"]; !ok || got != " \t\n" {
		c.Violation("environ", fmt.Sprintf("environment %q", cs.Environ), `IFS=" \t\n" right after NewExecEnv`, fmt.Sprintf("%q (present=%v)", got, ok), "")
		return
	}
	for _, kv := range cs.Environ {
		if k, v, _ := strings.Cut(kv, "="); !isSpecial(k) && !isPositional(k) && k != "IFS" {
			if got, ok := m.vars[k]; !ok || got != v {
				c.Violation("environ", fmt.Sprintf("environment %q", cs.Environ), fmt.Sprintf("%s=%q imported", k, v), fmt.Sprintf("%q (present=%v)", got, ok), "")
				return
			}
		}
	}
	key := func(i int) string {
		var ss []string
		for _, o := range cs.Ops[:i+1] {
			ss = append(ss, strings.TrimSpace(fmt.Sprintf("%s %s %s %s", o.Op, o.Name, o.Val, o.Src)))
		}
		return strings.Join(ss, "; ")
	}
	for i, op := range cs.Ops {
		c.Count("op/"+op.Op, 1)
		argsBefore := append([]string(nil), env.Args...)
		optsBefore := env.Opts
		aliasBefore := fmt.Sprint(env.Aliases)
		switch op.Op {
		case "set":
			env.Set(op.Name, op.Val)
			m.set(op.Name, op.Val)
		case "unset":
			env.Unset(op.Name)
			if !isSpecial(op.Name) && !isPositional(op.Name) {
				delete(m.vars, op.Name)
			}
		case "get", "walk":
			// observation only (done for every step below)
		case "walkmut":
			// a Walk whose callback changes the store on its first call: unsets the
			// (ordinary) names of op.Name and sets op.Src to op.Val.  What is judged
			// follows the map-iteration contract the documented Walk inherits: every
			// reported Var is live, with that value, at the moment it is reported; no
			// name is reported twice; every entry live before and after is reported.
			liveAtStart := map[string]bool{}
			for n := range m.vars {
				liveAtStart[n] = true
			}
			seen := map[string]int{}
			touched := map[string]bool{} // removed or (re)created during the Walk: may be produced or skipped
			first := true
			bad := ""
			env.Walk(func(v interp.Var) {
				if mv, ok := m.vars[v.Name]; (!ok || mv != v.Value) && bad == "" {
					bad = fmt.Sprintf("Walk reported %q=%q, which is not a live entry at that moment (model %s)", v.Name, v.Value, storeStr(m.vars))
				}
				seen[v.Name]++
				if first {
					first = false
					for _, n := range strings.Fields(op.Name) {
						env.Unset(n)
						delete(m.vars, n)
						touched[n] = true
					}
					if op.Src != "" {
						if _, ok := m.vars[op.Src]; !ok {
							touched[op.Src] = true
						}
						env.Set(op.Src, op.Val)
						m.set(op.Src, op.Val)
					}
				}
			})
			c.Eval(1)
			for n := range liveAtStart {
				if !touched[n] && seen[n] != 1 && bad == "" {
					bad = fmt.Sprintf("entry %q was live throughout the Walk and was reported %d times", n, seen[n])
				}
			}
			for n, k := range seen {
				if k > 1 && !touched[n] && bad == "" {
					bad = fmt.Sprintf("%q reported %d times", n, k)
				}
			}
			if bad != "" {
				c.Violation("walk-reentrant", key(i), "only live entries, each at most once, every surviving entry once", bad, "")
				return
			}
		case "args":
			env.Args = append([]string{"sh"}, op.Args...)
			m.args = append([]string{"sh"}, op.Args...)
			argsBefore = append([]string(nil), env.Args...)
		case "opts":
			env.Opts = interp.Option(op.Opts)
			m.opts = interp.Option(op.Opts)
			optsBefore = env.Opts
		case "expand":
			w, err := c20Word(op.Src)
			if err != nil {
				c.Violation("parse", key(i), "word parses", err.Error(), "")
				return
			}
			before := skel.Dump(w)
			var wantErr string
			var skip bool
			if strings.HasPrefix(op.Val, "arith:") {
				e, _ := c20Arith(op.Name, strings.TrimPrefix(op.Val, "arith:"))
				var we bool
				we, skip = m.arithEffect(e)
				if we {
					wantErr = "err"
				}
			} else {
				wantErr = m.expandEffect(op)
			}
			_, xerr := env.Expand(w, 0)
			c.Eval(1)
			if skel.Dump(w) != before {
				c.Violation("ast-modified", key(i), "the word passed to Expand is unchanged", "changed", "")
			}
			if skip {
				c.Skip("arithmetic step outside what C defines")
				return
			}
			if wantErr == "err" && xerr == nil {
				c.Violation("error-missed", key(i), "an error", "nil", "")
			} else if wantErr == "" && xerr != nil {
				c.Violation("bogus-error", key(i), "no error", xerr.Error(), "")
			}
		case "eval":
			e, src := c20Arith(op.Name, op.Val)
			we, skip := m.arithEffect(e)
			_, xerr := env.Eval(src)
			c.Eval(1)
			if skip {
				c.Skip("arithmetic step outside what C defines")
				return
			}
			if we != (xerr != nil) {
				c.Violation("eval-error", key(i), fmt.Sprintf("error=%v", we), fmt.Sprint(xerr), "")
			}
		}
		// Args / Opts / Aliases untouched by the operation
		if fmt.Sprint(env.Args) != fmt.Sprint(argsBefore) || env.Opts != optsBefore || fmt.Sprint(env.Aliases) != aliasBefore {
			c.Violation("env-fields-modified", key(i), fmt.Sprintf("Args=%q Opts=%d Aliases=%s", argsBefore, optsBefore, aliasBefore), fmt.Sprintf("Args=%q Opts=%d Aliases=%v", env.Args, env.Opts, env.Aliases), "")
			return
		}
		// observe the whole state after every step
		for _, n := range c20Names {
			if n == "@" || n == "*" || c20OddPositional[n] {
				continue // not parameters Get can return (or an unspecified reading); covered by Walk
			}
			wv, wset := m.get(n)
			gv, gset := env.Get(n)
			c.Eval(1)
			if wset != gset || (wset && wv != gv.Value) {
				c.Violation("get", key(i)+" => Get("+n+")", fmt.Sprintf("(%q, set=%v)", wv, wset), fmt.Sprintf("(%q, set=%v)", gv.Value, gset), "")
				return
			}
		}
		// positional parameters far beyond the last one (at and above 2^31, 2^63, 2^64): unset
		for _, n := range []string{"4294967296", "9223372036854775807", "9223372036854775808", "18446744073709551615", "18446744073709551616", "99999999999999999999"} {
			if gv, gset := env.Get(n); gset {
				c.Violation("get", key(i)+" => Get("+n+")", "unset (there are 2 positional parameters)", fmt.Sprintf("(%q, set=true)", gv.Value), "")
				return
			}
			c.Eval(1)
		}
		got := map[string]string{}
		dup := false
		env.Walk(func(v interp.Var) {
			if _, ok := got[v.Name]; ok {
				dup = true
			}
			got[v.Name] = v.Value
		})
		if dup || !mapsEqual(got, m.vars) {
			c.Violation("walk", key(i)+" => Walk", storeStr(m.vars), storeStr(got), "")
			return
		}
	}
	c.Distinct(key(len(cs.Ops) - 1))
	if c.Index()%1499 == 0 {
		c.Sample(map[string]any{"history": key(len(cs.Ops) - 1)})
	}
}

func c20Alphabet() []c20Op {
	var ops []c20Op
	ops = append(ops,
		c20Op{Op: "set", Name: "a", Val: "5"}, c20Op{Op: "set", Name: "A", Val: "x y"}, c20Op{Op: "set", Name: "a", Val: ""},
		c20Op{Op: "unset", Name: "a"}, c20Op{Op: "unset", Name: "A"},
		c20Op{Op: "set", Name: "1", Val: "hack"}, c20Op{Op: "set", Name: "#", Val: "9"}, c20Op{Op: "unset", Name: "1"},
		c20Op{Op: "expand", Name: "a", Val: ":=", Src: "${a:=dflt}"}, c20Op{Op: "expand", Name: "a", Val: "=", Src: "${a=dflt}"},
		c20Op{Op: "expand", Name: "a", Val: ":?", Src: "${a:?msg}"}, c20Op{Op: "expand", Name: "a", Val: "arith:n++", Src: "$((a++))"},
		c20Op{Op: "eval", Name: "a", Val: "n=1/0"}, c20Op{Op: "eval", Name: "A", Val: "n+=1"},
		c20Op{Op: "walkmut", Name: "a A"}, c20Op{Op: "walkmut", Name: "A", Src: "_b1", Val: "new"},
		// removal operators only read: neither the store nor Args may change (the result is C13's business)
		c20Op{Op: "expand", Name: "@", Val: "removal", Src: "${@%?}"}, c20Op{Op: "expand", Name: "*", Val: "removal", Src: "\"${*#?}\""},
	)
	return ops
}

func c20RandOp(r *rand.Rand) c20Op {
	n := pick(r, c20Names)
	on := pick(r, c20Ordinary)
	switch r.IntN(13) {
	case 12:
		op := c20Op{Op: "walkmut", Name: pick(r, c20Ordinary) + " " + pick(r, c20Ordinary) + " " + pick(r, c20Ordinary)}
		if r.IntN(2) == 0 {
			op.Src, op.Val = pick(r, c20Ordinary), pick(r, []string{"", "w", "7"})
		}
		return op
	case 0, 1:
		return c20Op{Op: "set", Name: n, Val: pick(r, []string{"", "1", "41", "x y", "010", "v1", "-7", "0x10"})}
	case 2:
		return c20Op{Op: "unset", Name: n}
	case 3:
		return c20Op{Op: "args", Args: pick(r, [][]string{nil, {"only"}, {"", "b"}, {"1", "2", "3", "4", "5", "6", "7", "8", "9", "ten", "11"}})}
	case 4:
		return c20Op{Op: "opts", Opts: uint(pick(r, []interp.Option{0, interp.NoGlob, interp.NoUnset, interp.NoGlob | interp.XTrace | interp.AllExport, interp.Verbose}))}
	case 5, 6, 7:
		form := pick(r, []string{"plain", ":-", ":+", ":=", "=", ":?"})
		if n == "@" || n == "*" {
			form = "plain" // operators on $@ / $* are outside the pinned rows (see C13)
		}
		if r.IntN(4) == 0 {
			// removal operators (also on $@ / $*): they only read, whatever they yield
			if n == "#" || n == "01" || c20OddPositional[n] || n == "+1" {
				n = "@"
			}
			return c20Op{Op: "expand", Name: n, Val: "removal", Src: fmt.Sprintf(pick(r, []string{"${%s%%?}", "${%s%%%%*}", "${%s#?}", "${%s##*}", "\"${%s%%[!x]}\"", "${%s%%%%}"}), n)}
		}
		src := map[string]string{"plain": "${%s}", ":-": "${%s:-dflt}", ":+": "${%s:+alt}", ":=": "${%s:=dflt}", "=": "${%s=dflt}", ":?": "${%s:?msg}"}[form]
		if n == "#" || n == "01" || c20OddPositional[n] || n == "+1" {
			n = on
		}
		return c20Op{Op: "expand", Name: n, Val: form, Src: fmt.Sprintf(src, n)}
	case 8, 9:
		form := pick(r, []string{"n=3", "n++", "--n", "n+=1", "1/0", "n=1/0", "n"})
		_, src := c20Arith(on, form)
		return c20Op{Op: "expand", Name: on, Val: "arith:" + form, Src: "$((" + src + "))"}
	default:
		return c20Op{Op: "eval", Name: on, Val: pick(r, []string{"n=3", "n++", "--n", "n+=1", "1/0", "n=1/0", "n"})}
	}
}

func c20Gen(c *core.Ctx) {
	alpha := c20Alphabet()
	// hostile process environments
	for i, e := range [][]string{{"1=from-env"}, {"@=x", "*=y"}, {"#=9", "?=1", "-=z", "!=b", "$=7", "0=n"}, {"10=z", "A=fromenv"}, {"a=5", "_b1=", "2=two"}, {"IFS=:", "a=1"}, {"IFS=", "b=2"}} {
		for k := 0; k < len(alpha); k++ {
			core.Do(c, c20Case{Environ: e, Ops: []c20Op{alpha[k], alpha[(k+i+1)%len(alpha)]}, Kind: "environ"}, c20Exec)
		}
	}
	// argument slices with spare capacity
	for _, l := range [][]string{{"a", "b", "c", "--", "rest", "of"}, {"x", "y"}, {"", "", "", ""}, {"1", "2", "3", "4", "5", "6", "7", "8", "9", "10", "11", "12"}, {"only", "spare"}} {
		core.Do(c, c20Case{Environ: l, Kind: "args-owned"}, c20Exec)
	}
	// environment blocks only a parent process can hand over (a child process is the probe)
	for _, e := range [][]string{{"=x"}, {"=x", "A=1"}, {"novalue", "A=1"}, {"=x=y", "B=2"}, {"=", "C=3"}, {"A=1", "A=2", "D=4"}, {"==", "E=a=b"}, {"1=one", "=x", "@=y", "F=f"}, {"名=v", "=名"}, {"IFS=,", "G=g"}, {}} {
		core.Do(c, c20Case{Environ: e, Kind: "environ-raw"}, c20Exec)
	}
	maxLen := c.Pick(3, 4)
	for n := 1; n <= maxLen; n++ {
		idx := make([]int, n)
		for {
			if c.Mine() {
				cs := c20Case{Kind: "exhaustive"}
				for _, k := range idx {
					cs.Ops = append(cs.Ops, alpha[k])
				}
				core.Run(c, cs, c20Exec)
			}
			k := n - 1
			for k >= 0 {
				idx[k]++
				if idx[k] < len(alpha) {
					break
				}
				idx[k] = 0
				k--
			}
			if k < 0 {
				break
			}
		}
	}
	nr := c.Pick(5000, 2000000)
	for i := 0; i < nr; i++ {
		if !c.Mine() {
			continue
		}
		r := c.Rand("hist", int64(i))
		cs := c20Case{Kind: "random"}
		for k := 5 + r.IntN(56); k > 0; k-- {
			cs.Ops = append(cs.Ops, c20RandOp(r))
		}
		core.Run(c, cs, c20Exec)
	}
	_ = sort.Strings
}

func init() {
	core.Register(&core.Engine{
		ID:          "C20",
		Level:       "exploration",
		Technique:   "runtime monitoring: lock-step reference model (plain map + read-only view of specials/positionals) compared through Get for the whole name universe and through Walk after every step of exhaustive-short and random operation histories",
		Rule:        "a case is a history of operations on one ExecEnv: Set/Unset over the name universe {a, A, _b1, IFS, HOME, @ * # ? - $ ! 0, 1, 2, 10, 01}, changes of Args/Opts, Expand of removal operators that only read (${n%?} ${n%%*} ${n#?} ${n##*}, also on @ and *), of ${n}, ${n:-w}, ${n:+w}, ${n:=w}, ${n=w}, ${n:?w}, $((n=3)), $((n++)), $((--n)), $((n+=1)), $((1/0)), $((n=1/0)), and Eval of the same arithmetic forms; exhaustive: all histories of length <=3 (thorough <=4) over an 18-operation alphabet; random: histories of 5-60 operations. After every step Get of all 15 observable names and the Walk multiset are compared with the model, Args/Opts/Aliases and the AST given to Expand must be unchanged. distinct_nontrivial = distinct histories completed.",
		Assumptions: []string{"the process environment of the worker is fixed (cleared) before NewExecEnv", "arithmetic effects come from refarith, parameter-expansion effects from the POSIX table; steps outside what C defines end the history unjudged"},
		Gen:         c20Gen,
		Replay:      func(c *core.Ctx, raw []byte) { core.ReplayOne(c, raw, c20Exec) },
		Exhaustive:  func(string) bool { return true },
		Finish: func(m *core.Merged) string {
			for _, k := range []string{"op/set", "op/unset", "op/expand", "op/eval", "op/args", "op/opts"} {
				if m.Counters[k] < 100 {
					return "too few " + k
				}
			}
			return ""
		},
	})
}
