package props

import (
	"fmt"
	"reflect"
	"strings"
	"unicode/utf8"

	"github.com/hattya/go.sh/ast"
	"github.com/hattya/go.sh/interp"
	"github.com/hattya/go.sh/parser"

	"verif/core"
	"verif/refsplit"
)

// C14 — field splitting against refsplit, plus model-free conservation.

type c14Case struct {
	Segs   []refsplit.Seg `json:"segs"`
	Arith  []bool         `json:"arith,omitempty"` // the segment's text (a number) is produced by an arithmetic expansion
	IFS    string         `json:"ifs"`
	IFSSet bool           `json:"ifs_set"`
	Kind   string         `json:"kind"`
}

var c14IFS = []struct {
	v   string
	set bool
}{{"", false}, {" \t\n", true}, {" ,", true}, {",", true}, {":", true}, {"", true}, {"、 ", true}}

func c14Env(cs c14Case) *interp.ExecEnv {
	env := interp.NewExecEnv("sh")
	env.Opts |= interp.NoGlob
	if cs.IFSSet {
		env.Set("IFS", cs.IFS)
	} else {
		env.Unset("IFS")
	}
	return env
}

// word as AST nodes built directly
func c14Direct(cs c14Case) ast.Word {
	var w ast.Word
	for i, s := range cs.Segs {
		if i < len(cs.Arith) && cs.Arith[i] {
			ae := &ast.ArithExp{Expr: ast.Word{&ast.Lit{Value: c14ArithSrc(s.Text)}}}
			if s.Quoted {
				w = append(w, &ast.Quote{Tok: `"`, Value: ast.Word{ae}})
			} else {
				w = append(w, ae)
			}
			continue
		}
		if s.Quoted {
			tok := `'`
			if i%2 == 1 {
				tok = `"`
			}
			var v ast.Word
			if s.Text != "" {
				v = ast.Word{&ast.Lit{Value: s.Text}}
			}
			if tok == `'` && v == nil {
				v = ast.Word{&ast.Lit{Value: ""}}
			}
			w = append(w, &ast.Quote{Tok: tok, Value: v})
		} else {
			w = append(w, &ast.Lit{Value: s.Text})
		}
	}
	return w
}

// word as parsed source text with the text coming from variables
func c14Parsed(cs c14Case, env *interp.ExecEnv) (ast.Word, string, error) {
	var b strings.Builder
	b.WriteString("x ")
	for i, s := range cs.Segs {
		name := fmt.Sprintf("v%d", i)
		env.Set(name, s.Text)
		switch {
		case i < len(cs.Arith) && cs.Arith[i] && s.Quoted:
			b.WriteString(`"$((` + c14ArithSrc(s.Text) + `))"`)
		case i < len(cs.Arith) && cs.Arith[i]:
			b.WriteString(`$((` + c14ArithSrc(s.Text) + `))`)
		case s.Quoted && s.Text == "":
			b.WriteString(`""`)
		case s.Quoted:
			b.WriteString(`"${` + name + `}"`)
		case s.Text == "":
			b.WriteString("${" + name + "}")
		default:
			b.WriteString("${" + name + "}")
		}
	}
	cmd, _, err := parser.ParseCommand("c14", b.String())
	if err != nil {
		return nil, b.String(), err
	}
	sc, ok := cmd.(*ast.Cmd)
	if !ok {
		return nil, b.String(), fmt.Errorf("unexpected command type %T", cmd)
	}
	args := sc.Expr.(*ast.SimpleCmd).Args
	if len(args) != 2 {
		return nil, b.String(), fmt.Errorf("expected 2 args, got %d", len(args))
	}
	return args[1], b.String(), nil
}

func c14Exec(c *core.Ctx, cs c14Case) {
	want := refsplit.Split(cs.Segs, cs.IFS, cs.IFSSet)
	key := fmt.Sprintf("%+v ifs=%q set=%v", cs.Segs, cs.IFS, cs.IFSSet)
	judge := func(how string, got []string, err error) {
		c.Eval(1)
		c.Count("words/"+how, 1)
		if err != nil {
			c.Violation("error", how+" "+key, want, err.Error(), "")
			return
		}
		if len(got) == 0 && len(want) == 0 {
			return
		}
		if !reflect.DeepEqual(got, want) {
			c.Violation("fields", how+" "+key, want, got, "")
			return
		}
		// model-free: conservation of characters
		var all strings.Builder
		for _, s := range cs.Segs {
			if s.Quoted {
				all.WriteString(s.Text)
				continue
			}
			ifs := cs.IFS
			if !cs.IFSSet {
				ifs = " \t\n"
			}
			for t := s.Text; t != ""; {
				_, w := utf8.DecodeRuneInString(t)
				if !refsplit.IsIFS(ifs, t[:w]) {
					all.WriteString(t[:w])
				}
				t = t[w:]
			}
		}
		if strings.Join(got, "") != all.String() {
			c.Violation("conservation", how+" "+key, all.String(), strings.Join(got, ""), "")
		}
	}
	env := c14Env(cs)
	got, err := env.Expand(c14Direct(cs), 0)
	judge("direct", got, err)
	env2 := c14Env(cs)
	w, src, perr := c14Parsed(cs, env2)
	if perr != nil {
		c.Violation("parse", "parsed "+key, "source "+src+" parses", perr.Error(), "")
	} else {
		got, err = env2.Expand(w, 0)
		judge("parsed", got, err)
	}
	c.Count(fmt.Sprintf("fields=%d", min(len(want), 6)), 1)
	if len(want) >= 2 {
		c.Distinct(key)
	}
	if c.Index()%5003 == 0 {
		c.Sample(map[string]any{"segs": cs.Segs, "ifs": cs.IFS, "ifs_set": cs.IFSSet, "fields": want})
	}
}

// c14ArithSrc is an expression whose value prints as the decimal text n.
func c14ArithSrc(n string) string {
	if strings.HasPrefix(n, "-") {
		return "0" + n
	}
	return n + "+0"
}

func c14Kinds(ifs string, set bool, pos int) []refsplit.Seg {
	eff := ifs
	if !set {
		eff = " \t\n"
	}
	letter := string(rune('a' + pos))
	ws := " "
	nws := ","
	for _, r := range eff {
		if r != ' ' && r != '\t' && r != '\n' {
			nws = string(r)
		}
	}
	niws := "\t"
	if strings.Contains(eff, "\t") {
		niws = "\v"
	}
	qifs := ws
	if pos%2 == 1 {
		qifs = nws
	}
	return []refsplit.Seg{
		{Text: letter}, {Text: ws}, {Text: nws}, {Text: niws},
		{Text: strings.ToUpper(letter), Quoted: true}, {Text: qifs, Quoted: true}, {Text: "", Quoted: true},
	}
}

func c14Gen(c *core.Ctx) {
	maxn := c.Pick(5, 6)
	for _, ifs := range c14IFS {
		for n := 1; n <= maxn; n++ {
			idx := make([]int, n)
			for {
				if c.Mine() {
					cs := c14Case{IFS: ifs.v, IFSSet: ifs.set, Kind: "exhaustive"}
					for p, k := range idx {
						cs.Segs = append(cs.Segs, c14Kinds(ifs.v, ifs.set, p)[k])
					}
					core.Run(c, cs, c14Exec)
				}
				k := n - 1
				for k >= 0 {
					idx[k]++
					if idx[k] < 7 {
						break
					}
					idx[k] = 0
					k--
				}
				if k < 0 {
					break
				}
			}
		}
	}
	// results of arithmetic expansions are unquoted text like any other expansion:
	// IFS made of digits / the minus sign cuts them
	nums := []string{"101", "-1", "22", "11", "120", "0", "-12"}
	for _, ifs := range []string{"1", "-", "0", "2 ", "1-"} {
		for _, a := range nums {
			for _, qa := range []bool{false, true} {
				core.Do(c, c14Case{Segs: []refsplit.Seg{{Text: a, Quoted: qa}}, Arith: []bool{true}, IFS: ifs, IFSSet: true, Kind: "arith-result"}, c14Exec)
				for _, b := range nums[:4] {
					for _, qb := range []bool{false, true} {
						core.Do(c, c14Case{Segs: []refsplit.Seg{{Text: "x"}, {Text: a, Quoted: qa}, {Text: "y", Quoted: true}, {Text: b, Quoted: qb}}, Arith: []bool{false, true, false, true}, IFS: ifs, IFSSet: true, Kind: "arith-result"}, c14Exec)
					}
				}
			}
		}
	}
	// invalid bytes are characters of their own: they delimit only when IFS holds that very byte
	for _, d := range []struct{ ifs, text string }{
		{"\xff", "a\xfeb"}, {"\ufffd", "a\xffb"}, {"\xff", "a\ufffdb"}, {",\xe3\x81", "a\xc0b,c"}, {" \x80", "a\xf5b c"}, {"\xff", "a\xffb\xfec"}, {"\xfe\xff", "\xffa\xfe\xfdb"},
	} {
		for _, q := range []bool{false, true} {
			core.Do(c, c14Case{Segs: []refsplit.Seg{{Text: "x"}, {Text: d.text, Quoted: q}, {Text: "y"}}, IFS: d.ifs, IFSSet: true, Kind: "invalid-bytes"}, c14Exec)
		}
	}
	// random longer words
	nr := c.Pick(20000, 5000000)
	for i := 0; i < nr; i++ {
		if !c.Mine() {
			continue
		}
		r := c.Rand("rand", int64(i))
		ifs := pick(r, c14IFS)
		cs := c14Case{IFS: ifs.v, IFSSet: ifs.set, Kind: "random"}
		n := 1 + r.IntN(40)
		for p := 0; p < n; p++ {
			s := c14Kinds(ifs.v, ifs.set, r.IntN(26))[r.IntN(7)]
			if !s.Quoted || s.Text != "" {
				// runs of the same thing
				s.Text = strings.Repeat(s.Text, 1+r.IntN(3))
				if chance(r, 1, 5) && !s.Quoted {
					s.Text += pick(r, []string{",", ":", " ", "\n", "é", "、"})
				}
			}
			cs.Segs = append(cs.Segs, s)
		}
		core.Run(c, cs, c14Exec)
	}
}

func init() {
	core.Register(&core.Engine{
		ID:        "C14",
		Level:     "exploration",
		Technique: "runtime monitoring: differential oracle (independent splitter written from the statement) + conservation check over exhaustive-small and random words, each built both as AST nodes and by parsing source text",
		Rule: "a case is (word as a list of quoted/unquoted segments, IFS); exhaustive over all words of <=5 (thorough <=6) segments of 7 kinds {ordinary, IFS white space, IFS non-white-space, non-IFS white space, quoted ordinary, quoted IFS char, empty quotes} x 7 IFS values {unset, default, ' ,', ',', ':', empty, multi-byte}; then random words of <=40 segments. Every word is expanded twice (direct AST, parsed source with the text in variables). " +
			"distinct_nontrivial = distinct (word, IFS) whose expected result has >=2 fields.",
		Assumptions: []string{"refsplit implements the C14 statement: cut at unquoted IFS characters, keep a piece iff it is non-empty or contains something quoted", "NoGlob is set so pathname expansion does not interfere"},
		Gen:         c14Gen,
		Replay:      func(c *core.Ctx, raw []byte) { core.ReplayOne(c, raw, c14Exec) },
		Exhaustive:  func(string) bool { return true },
		Finish: func(m *core.Merged) string {
			if m.Counters["words/direct"] < 10000 || m.Counters["words/parsed"] < 10000 {
				return "too few words expanded"
			}
			return ""
		},
	})
}
