package props

import (
	"sync/atomic"

	"math/rand/v2"
	"strings"
	"verif/sched"

	"github.com/hattya/go.sh/ast"
	"github.com/hattya/go.sh/parser"

	"verif/gen"
)

var commentTexts = []string{" c", "", " then", " $x 'q", " 日本", "#", " a; b", "\t!", " ends with \\", "\\"}

// layoutPolicy returns a randomised, grammar-preserving layout policy and the
// list of comment texts it inserts (in source order).  plain=true: blanks
// only (no comments, continuations or extra newlines).
func layoutPolicy(r *rand.Rand, plain bool) (gen.Policy, *[]string) {
	comments := &[]string{}
	tight := r.IntN(4) == 0
	pol := func(g gen.Gap) string {
		if g.Glue {
			return ""
		}
		aNL := g.A.Kind == gen.TNewline || g.A.Kind == gen.THereBody
		bNL := !g.Last && (g.B.Kind == gen.TNewline || g.B.Kind == gen.THereBody)
		var b strings.Builder
		blank := func() string {
			switch r.IntN(6) {
			case 0:
				return "  "
			case 1:
				return "\t"
			case 2:
				return " \t "
			}
			return " "
		}
		switch {
		case g.Last:
			// end of input: optionally blanks and a comment without a newline
			if !plain && !aNL && r.IntN(6) == 0 {
				t := pick(r, commentTexts)
				*comments = append(*comments, t)
				return " #" + t
			}
			return ""
		case !g.Last && g.B.Kind == gen.THereBody:
			return "" // the here-document body starts right after the newline
		case aNL:
			// start of a line: indentation, optional blank / comment lines where linebreak is allowed
			if !plain && g.A.LB && !g.A.HDPend && r.IntN(8) == 0 {
				if r.IntN(2) == 0 {
					b.WriteString("\n")
				} else {
					t := pick(r, commentTexts)
					*comments = append(*comments, t)
					b.WriteString("  #" + t + "\n")
				}
			}
			if !tight && r.IntN(3) == 0 {
				b.WriteString(blank())
			}
			return b.String()
		case bNL:
			// before a newline: optional trailing blanks and comment
			if !tight && r.IntN(5) == 0 {
				b.WriteString(blank())
			}
			if !plain && r.IntN(5) == 0 {
				t := pick(r, commentTexts)
				*comments = append(*comments, t)
				b.WriteString(" #" + t)
			}
			return b.String()
		}
		if !plain && r.IntN(14) == 0 {
			// line continuation between tokens
			return " \\\n" + strings.Repeat(" ", r.IntN(3))
		}
		if !plain && g.A.LB && !g.A.HDPend && r.IntN(10) == 0 {
			// linebreak allowed here: newline(s), possibly with a comment
			if r.IntN(3) == 0 {
				t := pick(r, commentTexts)
				*comments = append(*comments, t)
				return " #" + t + "\n"
			}
			return strings.Repeat("\n", 1+r.IntN(2))
		}
		if g.Required || !tight {
			if g.Required || r.IntN(5) > 0 {
				return blank()
			}
		}
		return ""
	}
	return pol, comments
}

func parseAll(name, src string) ([]ast.Command, []*ast.Comment, error) {
	return parser.ParseCommands(nil, name, src)
}

func commentTextsOf(cs []*ast.Comment) []string {
	out := []string{}
	for _, c := range cs {
		out = append(out, c.Text)
	}
	return out
}

func sameStrings(a, b []string) bool {
	if len(a) != len(b) {
		return false
	}
	for i := range a {
		if a[i] != b[i] {
			return false
		}
	}
	return true
}

// genProgram draws the i-th program of a stream.
func genProgram(r *rand.Rand, i int) *gen.Program {
	o := gen.Options{Budget: 4 + r.IntN(14), Heredocs: i%3 == 0, Flat: i%5 == 1, LeadHD: i%7 == 3}
	if i%40 == 7 {
		o.Budget = 60 + r.IntN(200)
	}
	return gen.New(r, o).Program()
}

// parseScheduled parses src under one of the two extreme coarse schedules.
// ok=false when the controller could not be used.
func parseScheduled(src, mode string) ([]ast.Command, error, bool) {
	cmds, _, err, _ := parseSched(src, sched.Mode{Default: mode == "lexer-first"})
	return cmds, err, true
}

func parseSched(src string, m sched.Mode) (cmds []ast.Command, comments []*ast.Comment, err error, res sched.Result) {
	res = sched.RunParser(m, func() {
		cmds, comments, err = parser.ParseCommands(nil, "sched", src)
	})
	schedForced.Add(int64(res.Forced))
	schedRuns.Add(1)
	if res.PopWaitBeforePush {
		schedPopFirst.Add(1)
	}
	if res.PushBeforePopWait {
		schedPushFirst.Add(1)
	}
	return
}

var schedForced, schedRuns, schedPopFirst, schedPushFirst atomic.Int64
