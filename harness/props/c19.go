package props

import (
	"fmt"
	"io"
	"os"
	"reflect"
	"sync"

	"github.com/hattya/go.sh/ast"
	"github.com/hattya/go.sh/interp"
	"github.com/hattya/go.sh/parser"
	"github.com/hattya/go.sh/pattern"
	"github.com/hattya/go.sh/printer"

	"verif/core"
	"verif/gen"
)

// C19 — whatever the parser produces can be measured, printed and expanded
// without panic; Eval / Match / Glob / Option.String never panic.

type c19Case struct {
	Src  []byte `json:"src,omitempty"`
	What string `json:"what"` // tree | eval | match | glob | option
	Arg  int    `json:"arg,omitempty"`
	Kind string `json:"kind"`
}

var nodeType = reflect.TypeOf((*ast.Node)(nil)).Elem()

// everyNode calls f for every value reachable from v that implements ast.Node.
func everyNode(v reflect.Value, f func(ast.Node), words func(ast.Word), depth int) {
	if !v.IsValid() || depth > 300 {
		return
	}
	if v.Kind() != reflect.Invalid && v.Type().Implements(nodeType) && v.CanInterface() {
		nilish := (v.Kind() == reflect.Ptr || v.Kind() == reflect.Interface || v.Kind() == reflect.Slice) && v.IsNil()
		if !nilish {
			n := v.Interface().(ast.Node)
			f(n)
			if w, ok := n.(ast.Word); ok {
				words(w)
			}
		}
	}
	switch v.Kind() {
	case reflect.Ptr, reflect.Interface:
		if !v.IsNil() {
			everyNode(v.Elem(), f, words, depth+1)
		}
	case reflect.Struct:
		for i := 0; i < v.NumField(); i++ {
			if v.Type().Field(i).IsExported() {
				everyNode(v.Field(i), f, words, depth+1)
			}
		}
	case reflect.Slice:
		for i := 0; i < v.Len(); i++ {
			everyNode(v.Index(i), f, words, depth+1)
		}
	}
}

var c19DirOnce sync.Once

func c19Setup(c *core.Ctx) {
	c19DirOnce.Do(func() {
		d := c.ScratchDir("c19")
		for _, n := range []string{"a", "b", "ab", ".h", "x*y", "f.txt"} {
			os.WriteFile(d+"/"+n, nil, 0o644)
		}
		os.Mkdir(d+"/dir", 0o755)
		os.Chdir(d)
	})
}

func c19Exec(c *core.Ctx, cs c19Case) {
	c19Setup(c)
	switch cs.What {
	case "option":
		base := cs.Arg
		for o := base; o < base+256; o++ {
			_ = interp.Option(o).String()
			c.Eval(1)
		}
		c.Count("calls/Option.String", 256)
		return
	case "eval":
		env := interp.NewExecEnv("sh")
		env.Set("x", "5")
		env.Set("a", "abc")
		_, err := env.Eval(string(cs.Src))
		c.Eval(1)
		c.Count("calls/Eval", 1)
		if err != nil {
			_ = err.Error()
			if _, ok := err.(interp.ArithExprError); !ok {
				c.Count("note/Eval-error-of-undocumented-type", 1)
			}
		}
		c01Quiesce(c)
		return
	case "match":
		for m := 0; m < 16; m++ {
			for _, s := range []string{"", "a", "ab", "a\nb", "é", "[", "\xff"} {
				_, _ = pattern.Match([]string{string(cs.Src)}, pattern.Mode(m), s)
				c.Eval(1)
			}
		}
		_, _ = pattern.Match([]string{string(cs.Src), "a*", string(cs.Src)}, pattern.Prefix, "ab")
		c.Count("calls/Match", 16*7+1)
		return
	case "glob":
		_, _ = pattern.Glob(string(cs.Src))
		c.Eval(1)
		c.Count("calls/Glob", 1)
		return
	}
	// tree: parse, then every downstream entry point
	cmds, comments, err := parser.ParseCommands(nil, "c19", string(cs.Src))
	c01Quiesce(c)
	if err != nil {
		c.Count("corpus/rejected", 1)
		return
	}
	c.Count("corpus/accepted", 1)
	var words []ast.Word
	nodes := 0
	everyNode(reflect.ValueOf(cmds), func(n ast.Node) {
		_ = n.Pos()
		_ = n.End()
		nodes++
		// Fprint of the node on its own: commands, lists, words, word parts are
		// printable, every other node type must come back as an error
		for _, ci := range []int{0, 255, int(c.Index()) % 256} {
			cfg := cfgOf(ci)
			if err := cfg.Fprint(io.Discard, n); err != nil {
				_ = err.Error()
				c.Count("note/Fprint-unsupported-node", 1)
			}
		}
	}, func(w ast.Word) { words = append(words, w) }, 0)
	for _, cm := range comments {
		_ = cm.Pos()
		_ = cm.End()
		cfg := cfgOf(int(c.Index()) % 256)
		_ = cfg.Fprint(io.Discard, cm)
	}
	c.Count("calls/Fprint-node", 3*nodes+len(comments))
	c.Eval(nodes)
	c.Count("calls/Pos+End", nodes)
	// Fprint under every Config
	ncfg := 256
	step := 1
	if len(cs.Src) > 40 {
		step = 5
	}
	for ci := int(c.Index()) % step; ci < ncfg; ci += step {
		cfg := cfgOf(ci)
		for _, cmd := range cmds {
			_ = cfg.Fprint(io.Discard, cmd)
			c.Eval(1)
		}
	}
	// widths outside the sensible range (the field is a plain int)
	for _, wd := range []int{0, -1, -1 << 40} {
		for _, cmd := range cmds {
			cfg := printer.Config{Indent: printer.Space, Width: wd}
			_ = cfg.Fprint(io.Discard, cmd)
			c.Eval(1)
		}
	}
	c.Count("calls/Fprint", ncfg/step*len(cmds))
	for _, w := range words {
		cfg := cfgOf(0)
		_ = cfg.Fprint(io.Discard, w)
	}
	// Expand of every word under every mode combination, NoGlob on and off
	for _, w := range words {
		for m := 0; m < 32; m++ {
			for _, ng := range []bool{false, true} {
				env := interp.NewExecEnv("sh", "p1", "p 2")
				env.Set("x", "a b")
				env.Set("HOME", "/h")
				if ng {
					env.Opts |= interp.NoGlob
				}
				if m%3 == 0 {
					env.Opts |= interp.NoUnset
				}
				if m%4 == 1 || ((m == 0 || m == 2) && ng) {
					// hostile environment: invalid UTF-8 in IFS and in values
					env.Set("IFS", "\xff,")
					env.Set("x", "a\xff\xffb\xff")
					env.Set("y", "\xff")
					env.Args = append(env.Args, "\xffq\xff")
				}
				if _, err := env.Expand(w, interp.ExpMode(m)); err != nil {
					_ = err.Error()
				}
				c.Eval(1)
			}
		}
	}
	// ... and with no positional parameters / one empty positional parameter
	for _, w := range words {
		for m := 0; m < 32; m++ {
			env := interp.NewExecEnv("sh")
			if m%2 == 1 {
				env = interp.NewExecEnv("sh", "")
			}
			if m%3 == 0 {
				env.Opts |= interp.NoUnset
			}
			if _, err := env.Expand(w, interp.ExpMode(m)); err != nil {
				_ = err.Error()
			}
			c.Eval(1)
		}
	}
	c.Count("calls/Expand", len(words)*96)
	c01Quiesce(c)
	if nodes >= 3 {
		c.Distinct(string(cs.Src))
	}
	if c.Index()%4999 == 0 {
		c.Sample(map[string]any{"source": string(cs.Src), "nodes": nodes, "words": len(words)})
	}
}

var c19ArithAlpha = []string{"0", "1", "9", "a", "x", "_", "+", "-", "*", "/", "%", "<", ">", "=", "!", "&", "|", "^", "~", "?", ":", "(", ")", " "}
var c19PatAlpha = []string{"a", "b", "*", "?", "[", "]", "!", "^", "-", "\\", ".", "\n", ":", "=", "\xff", "/"}

func c19Gen(c *core.Ctx) {
	// corpus: the C01 workloads (accepted ones are exercised downstream)
	c01TokenStrings(3, func(s string) {
		core.Do(c, c19Case{Src: []byte(s), What: "tree", Kind: "token-string"}, c19Exec)
	})
	enumStrings(c01Chars, 0, c.Pick(4, 5), func(s string, _ []int) {
		core.Do(c, c19Case{Src: []byte(s), What: "tree", Kind: "char-string"}, c19Exec)
	})
	nprog := c.Pick(1500, 30000)
	for i := 0; i < nprog; i++ {
		r := c.Rand("prog", int64(i))
		p := genProgram(r, i)
		pol, _ := layoutPolicy(r, i%2 == 0)
		b := []byte(gen.Join(gen.Tokens(p, true), pol).Text)
		core.Do(c, c19Case{Src: b, What: "tree", Kind: "generated"}, c19Exec)
		for k := 0; k < 12; k++ {
			if c.Mine() {
				core.Run(c, c19Case{Src: c01Mutate(r, b), What: "tree", Kind: "mutation"}, c19Exec)
			} else {
				c01Mutate(r, b)
			}
		}
	}
	// arbitrary strings for Eval / Match / Glob
	enumStrings(c19ArithAlpha, 0, c.Pick(3, 4), func(s string, _ []int) {
		core.Do(c, c19Case{Src: []byte(s), What: "eval", Kind: "exhaustive"}, c19Exec)
	})
	enumStrings(c19PatAlpha, 0, c.Pick(3, 4), func(s string, _ []int) {
		core.Do(c, c19Case{Src: []byte(s), What: "match", Kind: "exhaustive"}, c19Exec)
		core.Do(c, c19Case{Src: []byte(s), What: "glob", Kind: "exhaustive"}, c19Exec)
	})
	nr := c.Pick(20000, 500000)
	for i := 0; i < nr; i++ {
		if !c.Mine() {
			continue
		}
		r := c.Rand("bytes", int64(i))
		b := make([]byte, r.IntN(12))
		for j := range b {
			switch r.IntN(4) {
			case 0:
				b[j] = byte(r.IntN(256))
			default:
				b[j] = pick(r, []string{"0", "1", "x", "+", "-", "*", "/", "(", ")", "[", "]", "\\", "?", "=", "<", ">", "&", "|", "!", ":", ".", " ", "\n"})[0]
			}
		}
		core.Run(c, c19Case{Src: b, What: pick(r, []string{"eval", "match", "glob"}), Kind: "random-bytes"}, c19Exec)
	}
	for o := 0; o < 1<<14; o += 256 {
		core.Do(c, c19Case{What: "option", Arg: o, Kind: "exhaustive"}, c19Exec)
	}
}

func init() {
	core.Register(&core.Engine{
		ID:          "C19",
		Level:       "exploration",
		Technique:   "runtime monitoring: panic / process-death monitor in isolated workers over the downstream entry points (Pos/End of every node, Fprint under the 256 Configs, Expand under all 32 mode combinations x NoGlob, Eval, Match, Glob, Option.String), fed with every accepted input of the C01 corpora; both panicnil settings",
		Rule:        "cases: every string of <=3 tokens of the C01 alphabet (blank-joined and glued), every string of <=4 (thorough <=5) significant characters, 1500 (thorough 30000) generated programs and 12 byte mutations of each — each accepted one is walked (Pos/End of every node, Fprint of every node on its own under 3 Configs, Error() of every error returned), printed under all 256 Configs (every 5th for long sources) and every word expanded under 32 modes x NoGlob on/off (two positional parameters; hostile IFS / values with invalid UTF-8 in a quarter of them) and under 32 modes with no / one empty positional parameter; Eval on every string of <=3 (thorough <=4) symbols of a 24-symbol arithmetic alphabet, Match (16 mode values x 7 subjects) and Glob on every string of <=3 (thorough <=4) symbols of a 16-symbol pattern alphabet incl. an invalid UTF-8 byte, random byte strings, and all 2^14 Option values. distinct_nontrivial = distinct accepted sources with >=3 nodes.",
		Assumptions: []string{"absence of panic is the oracle; error values of undocumented type are counted as notes"},
		GoDebug:     []string{"panicnil=0", "panicnil=1"},
		Gen:         c19Gen,
		Replay:      func(c *core.Ctx, raw []byte) { core.ReplayOne(c, raw, c19Exec) },
		Exhaustive:  func(string) bool { return true },
		Finish: func(m *core.Merged) string {
			for _, k := range []string{"calls/Pos+End", "calls/Fprint", "calls/Expand", "calls/Eval", "calls/Match", "calls/Glob", "calls/Option.String", "corpus/accepted"} {
				if m.Counters[k] < 1000 {
					return "too few " + k
				}
			}
			if m.Counters["calls/Option.String"] != 2*(1<<14) {
				return fmt.Sprintf("Option.String called %d times, want %d", m.Counters["calls/Option.String"], 2*(1<<14))
			}
			return ""
		},
	})
}
