package props

import (
	"bytes"
	"errors"
	"fmt"
	"io"
	"strings"
	"unicode/utf8"

	"github.com/hattya/go.sh/parser"

	"verif/core"
	"verif/gen"
	"verif/skel"
)

// C07 — one call consumes exactly one complete command from the stream.
// C10 — a failing source reader is reported as that failure.

type c07Unit struct {
	Kind string       `json:"kind"` // command | blank | comment
	Prog *gen.Program `json:"prog,omitempty"`
	Text string       `json:"text"`
}

type c07Case struct {
	Units []c07Unit `json:"units"`
	Kind  string    `json:"kind"`
}

// posScanner is a RuneScanner over a byte slice that exposes its offset.
type posScanner struct {
	b    []byte
	off  int
	last int
}

func (s *posScanner) ReadRune() (rune, int, error) {
	if s.off >= len(s.b) {
		s.last = 0
		return 0, 0, io.EOF
	}
	r, w := utf8.DecodeRune(s.b[s.off:])
	s.off += w
	s.last = w
	return r, w, nil
}

func (s *posScanner) UnreadRune() error {
	if s.last == 0 {
		return errors.New("posScanner: nothing to unread")
	}
	s.off -= s.last
	s.last = 0
	return nil
}

func c07Exec(c *core.Ctx, cs c07Case) {
	var text strings.Builder
	var bounds []int
	type ref struct {
		skel     string
		comments []string
		ok       bool
	}
	var refs []ref
	for _, u := range cs.Units {
		text.WriteString(u.Text)
		bounds = append(bounds, text.Len())
		rf := ref{}
		if u.Kind == "command" {
			// reference: the generator's expected tree of the unit; its comments come from
			// parsing the unit alone (comment texts are layout, not part of the derivation)
			_, com, err := parseAll("c07", u.Text)
			if err != nil {
				com = nil
			}
			rf = ref{"", commentTextsOf(com), true}
			if u.Prog != nil {
				rf.skel = gen.Expect(u.Prog)
			}
		} else {
			_, com, _ := parseAll("c07", u.Text)
			rf = ref{"", commentTextsOf(com), true}
		}
		refs = append(refs, rf)
	}
	src := text.String()
	key := q(src)
	sc := &posScanner{b: []byte(src)}
	prev := 0 // index of the first unit not yet consumed
	for calls := 0; ; calls++ {
		if sc.off >= len(src) {
			break
		}
		if calls > 3*len(cs.Units)+5 {
			c.Violation("no-termination", key, "the calls reach the end of the stream", fmt.Sprintf("%d calls, offset %d of %d", calls, sc.off, len(src)), "")
			return
		}
		before := sc.off
		cmds, com, err := parser.ParseCommands(nil, "c07", sc)
		c.Eval(1)
		if err != nil {
			c.Violation("error", key, "every unit is accepted", fmt.Sprintf("call %d at offset %d: %v", calls, before, err), "")
			return
		}
		// which units did the call cover?
		j := -1
		for k := prev; k < len(bounds); k++ {
			if bounds[k] == sc.off {
				j = k
				break
			}
		}
		if j < 0 {
			c.Violation("boundary", key, fmt.Sprintf("after call %d the scanner is at one of the unit boundaries %v", calls, bounds[prev:]), fmt.Sprintf("offset %d (rest %q)", sc.off, q(src[min(sc.off, len(src)):])), "")
			return
		}
		cover := cs.Units[prev : j+1]
		last := cover[len(cover)-1]
		var wantComments []string
		for k := prev; k <= j; k++ {
			wantComments = append(wantComments, refs[k].comments...)
		}
		leadOK := true // every covered unit before the last is a comment/blank line, the first being a comment line
		for k, u := range cover[:len(cover)-1] {
			if u.Kind == "command" || (k == 0 && u.Kind != "comment") {
				leadOK = false
			}
		}
		c.Count(fmt.Sprintf("boundary/%s->%s", last.Kind, nextKind(cs.Units, j)), 1)
		got := skel.Cmds(cmds, skel.Strict)
		switch {
		case !leadOK:
			c.Violation("covered-too-much", key, "one call = one complete command", fmt.Sprintf("call %d covered units %d..%d (%s)", calls, prev, j, unitKinds(cover)), "")
			return
		case last.Kind == "command":
			if cs.Units[j].Prog == nil {
				// a hand-written unit: only its boundary (and acceptance) is judged
				c.Count("literal-units", 1)
			} else if got != refs[j].skel {
				c.Violation("result", key, refs[j].skel, got, fmt.Sprintf("call %d, unit %d parsed alone gives a different tree", calls, j))
				return
			}
		default:
			if len(cmds) != 0 {
				c.Violation("result", key, "an empty result for blank / comment lines", got, "")
				return
			}
			if len(cover) > 1 && j != len(cs.Units)-1 {
				// comment / blank lines may only be merged with a following command, or reach the end
				c.Violation("covered-too-much", key, "comment/blank lines are consumed alone or together with the next command", fmt.Sprintf("units %d..%d (%s)", prev, j, unitKinds(cover)), "")
				return
			}
		}
		if !sameStrings(commentTextsOf(com), append([]string{}, wantComments...)) {
			c.Violation("comments", key, fmt.Sprintf("%q", wantComments), fmt.Sprintf("%q", commentTextsOf(com)), fmt.Sprintf("call %d", calls))
			return
		}
		prev = j + 1
	}
	if prev != len(cs.Units) {
		c.Violation("boundary", key, "all units consumed", fmt.Sprintf("stopped at unit %d", prev), "")
		return
	}
	c.Count("bytes-consumed", len(src))
	c.Distinct(src)
	if c.Index()%499 == 0 {
		c.Sample(map[string]any{"stream": src, "unit_boundaries": bounds})
	}
}

func nextKind(us []c07Unit, j int) string {
	if j+1 < len(us) {
		return us[j+1].Kind
	}
	return "end"
}

func unitKinds(us []c07Unit) string {
	var s []string
	for _, u := range us {
		s = append(s, u.Kind)
	}
	return strings.Join(s, ",")
}

func c07Unit1(r interface{ IntN(int) int }, i int, rnd *gen.G, last bool) c07Unit {
	switch k := r.IntN(10); {
	case k == 0:
		return c07Unit{Kind: "blank", Text: pick2(r, []string{"\n", "  \n", "\t\n"})}
	case k == 1:
		return c07Unit{Kind: "comment", Text: pick2(r, []string{"# c\n", "#\n", "  # x y\n", "#!sh\n"})}
	}
	p := rnd.Program()
	toks := gen.Tokens(p, !last || r.IntN(2) == 0)
	rr := randFor(uint64(i)*977+uint64(r.IntN(1000)), 5)
	pol, _ := layoutPolicy(rr, r.IntN(2) == 0)
	return c07Unit{Kind: "command", Prog: p, Text: gen.Join(toks, pol).Text}
}

func pick2(r interface{ IntN(int) int }, xs []string) string { return xs[r.IntN(len(xs))] }

// hand-written commands whose extent the generator cannot express
var c07Literal = []string{
	// a continued line of an unquoted here-document is one logical line: "foo\<nl>E" is fooE, not the delimiter
	"cat <<E\nfoo\\\nE\nE\n", "cat <<-A\n\tfoo\\\n\tA\n\tA\n", "cat <<A\n$x\\\nA\nA\n", "cat <<OF\nE\\\nOF\nOF\n",
	"cat <<E <<F\na\\\nE\nE\nb\\\nF\nF\n", "{ cat <<E\nfoo\\\nE\nE\n}\n",
	// controls: with a quoted delimiter the backslash is literal text; a continued delimiter line (pinned by the repository's tests)
	"cat <<'E'\nfoo\\\nE\n", "cat <<EOF\nx\nE\\\nO\\\nF\n",
}

func c07Gen(c *core.Ctx) {
	for i, s := range c07Literal {
		for _, next := range []string{"echo NEXT\n", "\n", "# c\n", "cat <<E\nE\n"} {
			kind := map[string]string{"echo NEXT\n": "command", "\n": "blank", "# c\n": "comment", "cat <<E\nE\n": "command"}[next]
			core.Do(c, c07Case{Units: []c07Unit{{Kind: "command", Text: s}, {Kind: kind, Text: next}, {Kind: "command", Text: c07Literal[(i+1)%len(c07Literal)]}}, Kind: "literal"}, c07Exec)
		}
	}
	n := c.Pick(20000, 1000000)
	for i := 0; i < n; i++ {
		if !c.Mine() {
			continue
		}
		r := c.Rand("stream", int64(i))
		g := gen.New(r, gen.Options{Budget: 2 + r.IntN(8), Heredocs: i%2 == 0})
		cs := c07Case{Kind: "random"}
		nu := 2 + r.IntN(7)
		for k := 0; k < nu; k++ {
			g2 := gen.New(r, gen.Options{Budget: 2 + r.IntN(8), Heredocs: (i+k)%2 == 0, Flat: k%3 == 0, LeadHD: (i+k)%5 == 0})
			_ = g
			u := c07Unit1(r, i*16+k, g2, k == nu-1)
			if k < nu-1 && !strings.HasSuffix(u.Text, "\n") {
				u.Text += "\n"
			}
			cs.Units = append(cs.Units, u)
		}
		core.Run(c, cs, c07Exec)
	}
}

// ---- C10

type c10Case struct {
	Prog *gen.Program `json:"prog,omitempty"`
	Src  string       `json:"src,omitempty"`
	Seed uint64       `json:"seed"`
	Kind string       `json:"kind"`
	// Any: the source is used whether or not it is accepted (beyond the stated
	// quantifier; the statement itself does not depend on acceptance)
	Any bool `json:"any,omitempty"`
}

type failingScanner struct {
	rs        []rune
	i, k      int
	err       error
	delivered int
	canUnread bool
	// stepBack: UnreadRune after a failed ReadRune steps back over the last rune
	// that was read (io.RuneScanner allows that as well as an error); reads
	// counts the ReadRune calls (a bound against running in circles)
	stepBack bool
	reads    int
}

func (s *failingScanner) ReadRune() (rune, int, error) {
	s.reads++
	if s.i >= s.k {
		s.delivered++
		s.canUnread = false
		return 0, 0, s.err
	}
	r := s.rs[s.i]
	s.i++
	s.canUnread = true
	return r, utf8.RuneLen(r), nil
}

func (s *failingScanner) UnreadRune() error {
	if !s.canUnread && s.stepBack && s.delivered > 0 && s.i > 0 && s.reads < 100000 {
		s.i--
		return nil
	}
	if !s.canUnread {
		return errors.New("nothing to unread")
	}
	s.i--
	s.canUnread = false
	return nil
}

type failingReader struct {
	b         []byte
	i, k      int
	err       error
	delivered int
}

func (r *failingReader) Read(p []byte) (int, error) {
	if r.i >= r.k {
		r.delivered++
		return 0, r.err
	}
	n := copy(p, r.b[r.i:r.k])
	if n > 7 {
		n = 7 // short reads
	}
	r.i += n
	return n, nil
}

func c10Exec(c *core.Ctx, cs c10Case) {
	src := cs.Src
	if cs.Prog != nil {
		pol, _ := layoutPolicy(randFor(cs.Seed, 3), cs.Seed%2 == 0)
		src = gen.Join(gen.Tokens(cs.Prog, true), pol).Text
	}
	cmds0, com0, err0 := parseAll("c10", src)
	if err0 != nil && !cs.Any {
		c.Skip("source not accepted (only accepted programs are used)")
		return
	}
	if err0 != nil {
		c.Count("programs-rejected-without-fault", 1)
	}
	want := skel.Cmds(cmds0, skel.Strict) + fmt.Sprint(commentTextsOf(com0)) + c10Err(err0)
	rs := []rune(src)
	for k := 0; k <= len(rs); k++ {
		inj := c10Inject(int(c.Index())+k, fmt.Sprintf("injected read failure at rune %d", k))
		fs := &failingScanner{rs: rs, k: k, err: inj}
		cmds, com, err := parser.ParseCommands(nil, "c10", fs)
		c.Eval(1)
		c10Judge(c, fmt.Sprintf("RuneScanner k=%d of %d | %s", k, len(rs), q(src)), fs.delivered, inj, err, skel.Cmds(cmds, skel.Strict)+fmt.Sprint(commentTextsOf(com))+c10Err(err), want, rs, k)
	}
	// a RuneScanner of the other permitted kind: after a failed read its UnreadRune steps back
	for k := 0; k <= len(rs); k++ {
		inj := c10Inject(int(c.Index())+k+2, fmt.Sprintf("injected read failure at rune %d", k))
		fs := &failingScanner{rs: rs, k: k, err: inj, stepBack: true}
		_, _, err := parser.ParseCommands(nil, "c10", fs)
		c.Eval(1)
		switch {
		case fs.reads >= 100000:
			c.Violation("read-error-lost", fmt.Sprintf("step-back RuneScanner k=%d of %d | %s", k, len(rs), q(src)), inj.Error(), "the same runes are read over and over (100000 reads)", "")
		case fs.delivered > 0 && (err == nil || !errors.Is(err, inj)):
			c.Violation("read-error-lost", fmt.Sprintf("step-back RuneScanner k=%d of %d | %s", k, len(rs), q(src)), inj.Error(), fmt.Sprint(err), "")
		}
	}
	b := []byte(src)
	for k := 0; k <= len(b); k++ {
		if k < len(b) && !utf8.RuneStart(b[k]) {
			// a fault inside a multi-byte character: bufio hands the partial character
			// to the lexer as U+FFFD before the error becomes visible - not judged
			c.Skip("reader fault inside a multi-byte character")
			continue
		}
		inj := c10Inject(int(c.Index())+k+1, fmt.Sprintf("injected read failure at byte %d", k))
		fr := &failingReader{b: b, k: k, err: inj}
		cmds, com, err := parser.ParseCommands(nil, "c10", io.Reader(fr))
		c.Eval(1)
		c10Judge(c, fmt.Sprintf("Reader k=%d of %d | %s", k, len(b), q(src)), fr.delivered, inj, err, skel.Cmds(cmds, skel.Strict)+fmt.Sprint(commentTextsOf(com))+c10Err(err), want, nil, k)
	}
	c.Count("programs", 1)
	if c.Index()%307 == 0 {
		c.Sample(map[string]any{"source": src, "fault_positions": len(rs) + len(b) + 2})
	}
}

// eofLookalike prints like io.EOF and is not io.EOF.
type eofLookalike struct{}

func (eofLookalike) Error() string { return "EOF" }

// c10Inject varies the kind of the injected failure: a plain error, errors
// that wrap io.EOF / io.ErrUnexpectedEOF (only io.EOF itself means "end of
// input" for an io.Reader) and one that merely prints as "EOF".
func c10Inject(sel int, msg string) error {
	switch sel % 4 {
	case 1:
		return fmt.Errorf("%s: %w", msg, io.EOF)
	case 2:
		return fmt.Errorf("%s: %w", msg, io.ErrUnexpectedEOF)
	case 3:
		return fmt.Errorf("%s: %w", msg, eofLookalike{})
	}
	return errors.New(msg)
}

func c10Err(err error) string {
	if err == nil {
		return ""
	}
	return " error: " + err.Error()
}

func c10Judge(c *core.Ctx, key string, delivered int, inj, err error, got, want string, rs []rune, k int) {
	if delivered > 0 {
		c.Count("faults-delivered", 1)
		if rs != nil {
			// the lexer context of the fault: the character before it
			ctx := "start"
			if k > 0 {
				ctx = string(rs[k-1])
			}
			c.Distinct("ctx", ctx, fmt.Sprint(bytes.Count([]byte(string(rs[:k])), []byte("\n")) > 0))
		}
		switch {
		case err == nil:
			c.Violation("read-error-lost", key, inj.Error(), "nil error, tree "+got, "")
		case !errors.Is(err, inj):
			c.Violation("read-error-replaced", key, inj.Error(), err.Error(), "")
		}
		return
	}
	c.Count("faults-not-reached", 1)
	if got != want {
		c.Violation("unreached-fault-changed-result", key, want, fmt.Sprintf("%s err=%v", got, err), "")
	}
}

func c10Gen(c *core.Ctx) {
	n := c.Pick(3000, 60000)
	for i := 0; i < n; i++ {
		if !c.Mine() {
			continue
		}
		r := c.Rand("prog", int64(i))
		o := gen.Options{Budget: 3 + r.IntN(10), Heredocs: i%3 == 0, Flat: i%4 == 1, LeadHD: i%6 == 2}
		core.Run(c, c10Case{Prog: gen.New(r, o).Program(), Seed: uint64(c.Seed)*611953 + uint64(i), Kind: "generated"}, c10Exec)
	}
	for _, s := range prDedicated {
		core.Do(c, c10Case{Src: s, Kind: "dedicated"}, c10Exec)
	}
	for _, s := range []string{"case x in a) ;;\nesac\n", "a && b || c\n", "a >| f >> g <& 3 >& 4 <> h <<- E\n\tx\n\tE\n", "((1)); $((2)) ${x:-y} ${#z} `c`\n", "f() { a; }\n", "a \\\nb 'c' \"d\" # e\n", "case x in a) echo a & ;; esac\n", "case x in\na)\n;;\nesac\n", "case x in (a) b & ;; c) ;; esac\n", "a & b && c || d | e\n", "a >> f 2>| g <<- E\n\tE\n"} {
		for rep := 0; rep < 4; rep++ {
			core.Do(c, c10Case{Src: s, Kind: "dedicated"}, c10Exec)
		}
	}
	c01TokenStrings(c.Pick(2, 3), func(s string) {
		core.Do(c, c10Case{Src: s, Kind: "token-string", Any: true}, c10Exec)
	})
	// damaged programs: the syntax error and the reader fault compete
	nm := c.Pick(1500, 30000)
	for i := 0; i < nm; i++ {
		if !c.Mine() {
			continue
		}
		r := c.Rand("mut", int64(i))
		p := gen.New(r, gen.Options{Budget: 2 + r.IntN(6), Flat: i%2 == 0}).Program()
		b := c01Mutate(r, []byte(gen.Join(gen.Tokens(p, true), nil).Text))
		if !utf8.Valid(b) || bytes.IndexByte(b, 0) >= 0 || len(b) > 120 {
			continue
		}
		core.Run(c, c10Case{Src: string(b), Kind: "mutation", Any: true}, c10Exec)
	}
}

func init() {
	core.Register(&core.Engine{
		ID:          "C07",
		Level:       "exploration",
		Technique:   "runtime monitoring: conservation check on consumed input — successive ParseCommands calls on one offset-exposing RuneScanner; after every call the offset must be a unit boundary known to the generator and the result must equal the parse of that unit alone",
		Rule:        "a case is a stream of 2-8 units (complete commands of the generator in random layouts: single-line, multi-line compound, with here-documents, trailing comments, line continuations; blank lines; comment-only lines; last unit with or without final newline) read by successive calls; every unit boundary is checked. Pinned exception: comment lines (and blank lines after them) may be covered by the call of the next command or yield an empty result on their own. distinct_nontrivial = distinct streams; counters boundary/<kind>-><next kind>.",
		Assumptions: []string{"reference per unit = the generator's expected tree of that unit (comment texts from parsing the unit alone)"},
		Gen:         c07Gen,
		Replay:      func(c *core.Ctx, raw []byte) { core.ReplayOne(c, raw, c07Exec) },
		Finish: func(m *core.Merged) string {
			for _, k := range []string{"boundary/command->command", "boundary/command->blank", "boundary/command->comment", "boundary/blank->command", "boundary/command->end"} {
				if m.Counters[k] < 50 {
					return "too few boundaries of kind " + k
				}
			}
			return ""
		},
	})
	core.Register(&core.Engine{
		ID:          "C10",
		Level:       "fault_enumeration",
		Technique:   "runtime monitoring with fault injection at the source reader: complete single-fault enumeration — for every program and every rune index k (io.RuneScanner) and byte index k (io.Reader through bufio) the reader starts failing at k with a unique sentinel; the returned error must be that sentinel (errors.Is)",
		Rule:        "a case is a source: accepted ones (3000 / thorough 60000 generated programs in random layouts, dedicated sources, some repeated 4 times) and, beyond the stated quantifier, sources of any verdict (every string of <=2 (thorough <=3) tokens of the C01 alphabet, 1500 (thorough 30000) byte-mutated programs, where a genuine syntax error and the reader fault compete); for each, EVERY k in [0, len] for both source kinds. A fault that was delivered must come back as the error; a fault that was never reached must leave the result equal to the fault-free parse. distinct_nontrivial = distinct (character before the fault, on first line or not) contexts in which a fault was delivered.",
		Assumptions: []string{"literal reading of the statement for rejected sources: whenever the reader actually returned its error during the call (observed at the reader, not assumed), that error is what ParseCommands returns, even if a genuine syntax error precedes it; a fault the call never reached must leave commands, comments and error text equal to the fault-free parse"},
		Gen:         c10Gen,
		Replay:      func(c *core.Ctx, raw []byte) { core.ReplayOne(c, raw, c10Exec) },
		Exhaustive:  func(string) bool { return true },
		Finish: func(m *core.Merged) string {
			if m.Counters["faults-delivered"] < 10000 {
				return "too few faults delivered"
			}
			return ""
		},
	})
}
