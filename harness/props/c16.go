package props

import (
	"fmt"
	"math/rand/v2"
	"os"
	"path/filepath"
	"sort"
	"strings"
	"unicode/utf8"

	"github.com/hattya/go.sh/pattern"

	"verif/core"
	"verif/refpat"
)

// C16 — pathname expansion against a reference walker over a real scratch tree.

type c16Entry struct {
	Path string `json:"path"` // relative, components separated by /
	Type string `json:"type"` // file | dir | linkfile | linkdir | dangling
}

type c16Case struct {
	Tree     []c16Entry `json:"tree"`
	Patterns []string   `json:"patterns"` // "<ROOT>" stands for the absolute path of the tree
	Kind     string     `json:"kind"`
}

type globComp struct {
	text string
	sep  string
}

// splitGlob cuts a pattern into components at unescaped '/' and at '\/'.
func splitGlob(p string) (comps []globComp, ok bool) {
	var cur strings.Builder
	rs := []rune(p)
	for i := 0; i < len(rs); i++ {
		switch {
		case rs[i] == '\\' && i+1 < len(rs) && rs[i+1] == '/':
			comps = append(comps, globComp{cur.String(), "/"})
			cur.Reset()
			i++
		case rs[i] == '\\' && i+1 < len(rs):
			cur.WriteRune(rs[i])
			cur.WriteRune(rs[i+1])
			i++
		case rs[i] == '\\':
			return nil, false // trailing backslash
		case rs[i] == '/':
			comps = append(comps, globComp{cur.String(), "/"})
			cur.Reset()
		default:
			cur.WriteRune(rs[i])
		}
	}
	if cur.Len() > 0 {
		comps = append(comps, globComp{cur.String(), ""})
	}
	return comps, true
}

func globLiteral(text string) (string, bool) {
	var b strings.Builder
	rs := []rune(text)
	for i := 0; i < len(rs); i++ {
		switch rs[i] {
		case '\\':
			i++
			b.WriteRune(rs[i])
		case '*', '?', '[':
			return "", false
		default:
			b.WriteRune(rs[i])
		}
	}
	return b.String(), true
}

func isDir(p string) bool {
	st, err := os.Stat(p)
	return err == nil && st.IsDir()
}

// refGlob is the reference: it walks the real file system below the current
// directory (or from / for absolute patterns).
func refGlob(p string) (out []string, skip string) {
	if p == "" {
		return nil, ""
	}
	if !utf8.ValidString(p) {
		return nil, "invalid UTF-8"
	}
	comps, ok := splitGlob(p)
	if !ok {
		return nil, "trailing backslash"
	}
	paths := []string{""}
	for ci, cp := range comps {
		if cp.text == "" {
			// empty component: a leading, doubled or trailing slash is kept as written
			for i := range paths {
				paths[i] += cp.sep
			}
			if ci == 0 {
				continue
			}
			// every path so far must still name a directory
			var keep []string
			for _, q := range paths {
				if isDir(q) {
					keep = append(keep, q)
				}
			}
			paths = keep
			continue
		}
		var next []string
		if name, lit := globLiteral(cp.text); lit {
			for _, base := range paths {
				cand := base + name
				if _, err := os.Lstat(cand); err != nil {
					continue
				}
				if cp.sep != "" && !isDir(cand) {
					continue
				}
				next = append(next, cand+cp.sep)
			}
		} else {
			pp := refpat.Parse(cp.text)
			if pp.Class != refpat.OK {
				return nil, "malformed component"
			}
			dot := strings.HasPrefix(cp.text, ".") || strings.HasPrefix(cp.text, `\.`)
			for _, base := range paths {
				dir := base
				if dir == "" {
					dir = "."
				}
				es, err := os.ReadDir(dir)
				if err != nil {
					continue
				}
				var names []string
				if dot {
					names = append(names, ".", "..")
				}
				for _, e := range es {
					names = append(names, e.Name())
				}
				for _, n := range names {
					if strings.HasPrefix(n, ".") && !dot {
						continue
					}
					if !utf8.ValidString(n) || !pp.MatchWhole([]rune(n)) {
						continue
					}
					cand := base + n
					if cp.sep != "" && !isDir(cand) {
						continue
					}
					next = append(next, cand+cp.sep)
				}
			}
		}
		paths = next
		if len(paths) == 0 {
			return nil, ""
		}
	}
	sort.Strings(paths)
	var ded []string
	for i, q := range paths {
		if i == 0 || q != paths[i-1] {
			ded = append(ded, q)
		}
	}
	return ded, ""
}

func c16Build(root string, tree []c16Entry) error {
	for _, e := range tree {
		p := filepath.Join(root, filepath.FromSlash(e.Path))
		os.MkdirAll(filepath.Dir(p), 0o755)
		var err error
		switch e.Type {
		case "dir":
			err = os.MkdirAll(p, 0o755)
		case "file":
			err = os.WriteFile(p, nil, 0o644)
		case "linkfile":
			os.WriteFile(filepath.Join(filepath.Dir(p), "target.file"), nil, 0o644)
			err = os.Symlink("target.file", p)
		case "linkdir":
			os.MkdirAll(filepath.Join(filepath.Dir(p), "target.dir"), 0o755)
			os.WriteFile(filepath.Join(filepath.Dir(p), "target.dir", "inner"), nil, 0o644)
			err = os.Symlink("target.dir", p)
		case "dangling":
			err = os.Symlink("no-such-target", p)
		}
		_ = err // an entry that collides with an earlier one is simply absent; the reference walks the real tree
	}
	return nil
}

var c16Scratch string

func c16Exec(c *core.Ctx, cs c16Case) {
	if c16Scratch == "" {
		c16Scratch = c.ScratchDir("c16")
	}
	top, err := os.MkdirTemp(c16Scratch, "t")
	if err != nil {
		panic(err)
	}
	defer os.RemoveAll(top)
	// the tree sits a few levels below a private directory, so that patterns
	// climbing through ".." stay inside a quiescent part of the file system
	root := filepath.Join(top, "l1", "l2", "l3", "l4", "l5")
	if err := os.MkdirAll(root, 0o755); err != nil {
		panic(err)
	}
	if err := c16Build(root, cs.Tree); err != nil {
		c.Inconclusive("cannot build tree: " + err.Error())
		return
	}
	wd, _ := os.Getwd()
	if err := os.Chdir(root); err != nil {
		panic(err)
	}
	defer os.Chdir(wd)
	nonEmpty := 0
	for _, pt := range cs.Patterns {
		p := strings.ReplaceAll(pt, "<ROOT>", root)
		// <ROOTW1..3>: the tree's absolute path with its FIRST component written as a
		// pattern (?mp, [t]mp, tmp*): the only foreign directory this reads is /
		if first, rest, ok := strings.Cut(strings.TrimPrefix(root, "/"), "/"); ok && first != "" && strings.Contains(p, "<ROOTW") {
			_, sz := utf8.DecodeRuneInString(first)
			p = strings.ReplaceAll(p, "<ROOTW1>", "/?"+first[sz:]+"/"+rest)
			p = strings.ReplaceAll(p, "<ROOTW2>", "/["+first[:sz]+"]"+first[sz:]+"/"+rest)
			p = strings.ReplaceAll(p, "<ROOTW3>", "/"+first+"*/"+rest)
		}
		want, skip := refGlob(p)
		if pt == "/*" || pt == "/*/" || pt == "/.*" {
			skip = "the root directory is not ours to model (only the model-free clauses apply)"
		}
		got, err := pattern.Glob(p)
		c.Eval(1)
		key := fmt.Sprintf("%q in %s", pt, treeStr(cs.Tree))
		if skip == "" {
			c.Count("globs/"+c16Class(pt), 1)
			if err != nil {
				c.Violation("error", key, fmt.Sprintf("%q", want), err.Error(), "")
				continue
			}
		}
		// model-free clauses (they hold for every pattern Glob answers without error,
		// also for those the reference walker does not judge)
		for i, g := range got {
			if _, err := os.Lstat(g); err != nil {
				c.Violation("nonexistent", key, "every returned path exists", fmt.Sprintf("%q: %v", g, err), "")
			}
			if i > 0 && got[i-1] >= g {
				c.Violation("order", key, "strictly ascending byte order", fmt.Sprintf("%q", strings.ReplaceAll(fmt.Sprint(got), root, "<ROOT>")), "")
				break
			}
		}
		if skip != "" {
			c.Skip("pattern not judged: " + skip)
			continue
		}
		if !sameSet(got, want) {
			c.Violation("set", key, strings.ReplaceAll(fmt.Sprintf("%q", want), root, "<ROOT>"), strings.ReplaceAll(fmt.Sprintf("%q", got), root, "<ROOT>"), "")
		}
		if len(want) > 0 {
			nonEmpty++
			c.Count("non-empty-results", 1)
		} else {
			c.Count("empty-results", 1)
		}
	}
	if nonEmpty >= 2 {
		c.Distinct(treeStr(cs.Tree), strings.Join(cs.Patterns, "\x00"))
	}
	if c.Index()%97 == 0 {
		n := min(len(cs.Patterns), 8)
		c.Sample(map[string]any{"tree": cs.Tree, "patterns(first 8)": cs.Patterns[:n]})
	}
}

func sameSet(a, b []string) bool {
	if len(a) != len(b) {
		return false
	}
	x := append([]string(nil), a...)
	y := append([]string(nil), b...)
	sort.Strings(x)
	sort.Strings(y)
	for i := range x {
		if x[i] != y[i] {
			return false
		}
	}
	return true
}

func treeStr(t []c16Entry) string {
	var ss []string
	for _, e := range t {
		ss = append(ss, e.Type[:2]+":"+e.Path)
	}
	return strings.Join(ss, " ")
}

func c16Class(p string) string {
	var k []string
	if strings.HasPrefix(p, "<ROOTW") || strings.HasPrefix(p, "/*") || p == "/.*" {
		k = append(k, "absolute-wildcard-first")
	}
	if strings.HasPrefix(p, "<ROOT>") {
		k = append(k, "absolute")
	}
	if strings.HasSuffix(p, "/") {
		k = append(k, "trailing-slash")
	}
	if strings.Contains(p, "//") {
		k = append(k, "double-slash")
	}
	if strings.ContainsAny(p, "*?[") {
		k = append(k, "wild")
	} else {
		k = append(k, "literal")
	}
	if strings.Contains(p, `\`) {
		k = append(k, "escaped")
	}
	if strings.HasPrefix(p, ".") || strings.Contains(p, "/.") {
		k = append(k, "dot")
	}
	return strings.Join(k, "+")
}

var c16Names = []string{"a", "b", "b.c", "b-", "ab", "abc", "a.go", "foo", "bar", ".hid", ".h2", "..x", "x*y", "q?", "[z]", "br]", `back\slash`, "!bang", "^hat", "da-sh", "p+q", "(par)", "a|b", "{cur}", "do$lar", "sp ace", "nl\nnl", "日本", "é", "tab\tx", "-lead", "~tilde", "#hash", "a.b.c", "A", "B"}

func c16RandTree(r *rand.Rand) []c16Entry {
	var t []c16Entry
	types := []string{"file", "file", "file", "dir", "dir", "linkfile", "linkdir", "dangling"}
	var dirs []string
	dirs = append(dirs, "")
	n := 4 + r.IntN(20)
	for i := 0; i < n; i++ {
		d := pick(r, dirs)
		if strings.Count(d, "/") >= 3 {
			d = ""
		}
		name := pick(r, c16Names)
		ty := pick(r, types)
		p := d + name
		t = append(t, c16Entry{Path: p, Type: ty})
		if ty == "dir" {
			dirs = append(dirs, p+"/")
		}
	}
	return t
}

// generalise one component name into a pattern component
func c16GenComp(r *rand.Rand, name string) string {
	rs := []rune(name)
	var b strings.Builder
	esc := func(x rune) {
		switch x {
		case '*', '?', '[', '\\':
			b.WriteByte('\\')
		default:
			if r.IntN(8) == 0 {
				b.WriteByte('\\')
			}
		}
		b.WriteRune(x)
	}
	mode := r.IntN(6)
	for i := 0; i < len(rs); i++ {
		x := rs[i]
		switch {
		case mode == 0:
			esc(x) // literal
		case i == 0 && x == '.' && r.IntN(3) > 0:
			esc(x)
		case r.IntN(5) == 0:
			b.WriteByte('?')
		case r.IntN(6) == 0:
			b.WriteByte('*')
			i += r.IntN(len(rs) - i)
		case r.IntN(7) == 0 && x != '/' && x != ']' && x != '\\' && x != '[' && x != '-' && x != '!' && x != '^' && x != '\n':
			if r.IntN(3) == 0 {
				b.WriteString("[!" + string(x+1) + "]")
			} else {
				b.WriteString("[" + string(x) + "z]")
			}
		default:
			esc(x)
		}
	}
	return b.String()
}

func c16RandPatterns(r *rand.Rand, tree []c16Entry, n int) []string {
	var paths []string
	for _, e := range tree {
		paths = append(paths, e.Path)
		if e.Type == "linkdir" {
			paths = append(paths, e.Path+"/inner")
		}
	}
	fixed := []string{"*", ".*", "*/", "*/*", "*/.*", ".*/", "./*", "*//", "*//*", "?", "??*", "[a-b]*", "*.go", "<ROOT>/*", "<ROOT>/*/", "<ROOT>/.*", "<ROOT>//*", "a", "a/", "nope", "nope/*", "*/nope", ".", "..", "../*", "./", "*/../*", `\*`, `*\/`, `*\/*`, "[!.]*", `\.*`, "*/*/", "*/*/*", "a//", "nope//", "*/a//", "<ROOT>/nope///", "a.go//", "*/a.go//", `*\`, `a\`, `a/\`, `\`, `?\`, `*/\`, `\<ROOT>/*`, `\<ROOT>\/*`, `\<ROOT>/a`, `\<ROOT>//.*`, "<ROOTW1>/*", "<ROOTW2>/a", "<ROOTW3>/*/", "<ROOTW1>/.*", "<ROOTW3>//*", "<ROOTW2>/*/*", "/*", "/*/", "/.*"}
	out := append([]string(nil), fixed...)
	for len(out) < n {
		p := pick(r, paths)
		comps := strings.Split(p, "/")
		var b strings.Builder
		if r.IntN(6) == 0 {
			b.WriteString("<ROOT>/")
		} else if r.IntN(10) == 0 {
			b.WriteString("./")
		}
		k := 1 + r.IntN(len(comps))
		for i := 0; i < k; i++ {
			if i > 0 {
				switch r.IntN(12) {
				case 0:
					b.WriteString("//")
				case 1:
					b.WriteString(`\/`)
				default:
					b.WriteString("/")
				}
			}
			c := comps[i]
			switch r.IntN(12) {
			case 0:
				b.WriteString("*")
			case 1:
				b.WriteString(".*")
			case 2:
				// near miss
				b.WriteString(c16GenComp(r, c+"x"))
			default:
				b.WriteString(c16GenComp(r, c))
			}
		}
		switch r.IntN(15) {
		case 0, 1, 2:
			b.WriteString("/")
		case 3:
			b.WriteString("//") // several trailing separators still select directories only
		case 4:
			b.WriteString("///")
		}
		out = append(out, b.String())
	}
	return out
}

func c16Gen(c *core.Ctx) {
	ntrees := c.Pick(300, 60000)
	npat := c.Pick(200, 300)
	// a fixed tree mirroring the repo's own test plus directories vs files with the same prefix
	base := []c16Entry{{".git/config", "file"}, {".gitignore", "file"}, {"a.go", "file"}, {"foo/a.go", "file"}, {"bar/a.go", "file"}, {"baz/a.go", "file"},
		{"b", "file"}, {"b.c", "dir"}, {"b-", "dir"}, {"b-/x", "file"}, {"b.c/x", "file"}, {"ld", "linkdir"}, {"lf", "linkfile"}, {"dg", "dangling"}, {"*", "file"}, {"nl\nx", "file"}}
	for i := 0; i < ntrees; i++ {
		if !c.Mine() {
			continue
		}
		r := c.Rand("tree", int64(i))
		tree := base
		if i > 0 {
			tree = c16RandTree(r)
		}
		core.Run(c, c16Case{Tree: tree, Patterns: c16RandPatterns(r, tree, npat), Kind: "random-tree"}, c16Exec)
	}
}

func init() {
	core.Register(&core.Engine{
		ID:           "C16",
		Level:        "exploration",
		Technique:    "runtime monitoring: differential oracle (reference tree walker using the independent matcher) plus model-free existence/order/duplicate checks on pattern.Glob executed in real scratch directory trees",
		Rule:         "(fixed shapes include absolute patterns whose FIRST component is a wildcard — the tree's path written /?mp/..., /[t]mp/..., /tmp*/... — and /*, /*/, /.* under the model-free clauses only) a case is a directory tree (4-24 entries, depth<=4: files, directories, dot files, symlinks to files/directories, dangling symlinks; names with pattern and regexp metacharacters, blanks, newline, multi-byte, names that are prefixes of one another) built in a scratch directory, with 200 (thorough 300) patterns: 34 fixed shapes (*, .*, */, */*, //, ./, absolute, literal, \\-escapes ...) and patterns generalised from the tree's own paths (characters to ?, runs to *, bracket expressions, escapes, near misses, doubled/escaped/trailing slashes, absolute prefix). distinct_nontrivial = distinct (tree, pattern list) cases with >=2 non-empty results.",
		Assumptions:  []string{"refpat judges component matches", "patterns with a malformed component (unterminated [, trailing \\, invalid UTF-8) are not judged", "runs as root: unreadable directories cannot be produced"},
		CaseWatchdog: 60e9,
		Gen:          c16Gen,
		Replay:       func(c *core.Ctx, raw []byte) { core.ReplayOne(c, raw, c16Exec) },
		Finish: func(m *core.Merged) string {
			if m.Counters["non-empty-results"] < 1000 || m.Counters["empty-results"] < 1000 {
				return "too few non-empty / empty glob results observed"
			}
			return ""
		},
	})
}
