package props

import (
	"strings"

	"fmt"
	"github.com/hattya/go.sh/ast"

	"verif/core"
	"verif/gen"
	"verif/skel"
)

// C02 — grammatical programs are accepted and the AST mirrors the derivation.

type c02Case struct {
	Prog    *gen.Program `json:"prog"`
	Layouts int          `json:"layouts"`
	Seed    uint64       `json:"seed"`
	Kind    string       `json:"kind"`
	// hand-written sentence: must be accepted and, when Equiv is given, parse to
	// the same tree as that other spelling of the same derivation
	Src   string `json:"src,omitempty"`
	Equiv string `json:"equiv,omitempty"`
}

func c02Literal(c *core.Ctx, cs c02Case) {
	key := q(cs.Src)
	cmds, _, err := parseAll("c02", cs.Src)
	c.Eval(1)
	if err != nil {
		c.Violation("rejected", key, "accepted (a sentence of the grammar)", err.Error(), "")
		return
	}
	if cs.Equiv == "" {
		return
	}
	ref, _, rerr := parseAll("c02", cs.Equiv)
	if rerr != nil {
		c.Inconclusive("reference spelling rejected: " + rerr.Error())
		return
	}
	norm := func(cm []ast.Command) string {
		return strings.ReplaceAll(skel.Cmds(cm, skel.Normalised), "(cmdsubst `", "(cmdsubst $")
	}
	if got, want := norm(cmds), norm(ref); got != want {
		c.Violation("tree", key, want+"  (as "+q(cs.Equiv)+")", got, "")
	}
}

func c02Exec(c *core.Ctx, cs c02Case) {
	if cs.Src != "" {
		c02Literal(c, cs)
		return
	}
	want := gen.Expect(cs.Prog)
	toks := gen.Tokens(cs.Prog, true)
	for l := 0; l < cs.Layouts; l++ {
		r := randFor(cs.Seed, uint64(l))
		var pol gen.Policy
		var wantComments *[]string
		switch {
		case l == 0:
			pol, wantComments = gen.Canon, &[]string{}
		case l == 1:
			pol, wantComments = gen.Tight, &[]string{}
		default:
			pol, wantComments = layoutPolicy(r, l%2 == 1)
		}
		tk := toks
		if l%3 == 2 {
			if t2 := gen.Tokens(cs.Prog, false); len(t2) > 0 {
				tk = t2 // without the final newline (when no here-document needs it)
			}
		}
		rd := gen.Join(tk, pol)
		cmds, comments, err := parseAll("c02", rd.Text)
		c.Eval(1)
		key := q(rd.Text)
		if err != nil {
			c.Violation("rejected", key, "accepted: "+want, err.Error(), "")
			continue
		}
		if got := skel.Cmds(cmds, skel.Strict); got != want {
			c.Violation("tree", key, want, got, "")
			continue
		}
		if got := commentTextsOf(comments); !sameStrings(got, *wantComments) {
			c.Violation("comments", key, fmt.Sprintf("%q", *wantComments), fmt.Sprintf("%q", got), "")
		}
	}
	c.Distinct(want)
	if c.Index()%501 == 0 {
		c.Sample(map[string]any{"source": gen.Join(toks, nil).Text, "skeleton": want})
	}
}

// c02Witnesses are the recorded inputs of the known finding "(( is recognised
// as the arithmetic command only while the lexer's parenthesis counter is 0".
func c02Witnesses() []*gen.Program {
	arith := &gen.Cmd{K: "arith", Expr: []gen.Atom{{P: gen.Lit("1")}}}
	top := func(aos ...*gen.AndOr) *gen.Program { return &gen.Program{List: &gen.CList{Top: true, Items: aos}} }
	sub := func(c *gen.Cmd) *gen.Cmd { return &gen.Cmd{K: "subshell", Body: gen.List1(c, "", false)} }
	cs := &gen.Cmd{K: "case", Word: gen.LW("x"), Cases: []*gen.CaseItem{{Pats: []*gen.Word{gen.LW("a")}, Break: true}}}
	echo := gen.Simple("echo")
	echo.Post = append(echo.Post, gen.Item{W: gen.W(gen.Part{K: "cmdsub", List: gen.List1(arith, "", false)})})
	first := gen.AO(gen.Pipe(sub(cs)))
	first.Sep = ";"
	return []*gen.Program{
		top(gen.AO(gen.Pipe(sub(arith)))),
		top(gen.AO(gen.Pipe(echo))),
		top(first, gen.AO(gen.Pipe(arith))),
	}
}

// hand-written sentences: regression inputs of repaired defects and the
// witnesses of the open known findings
var c02Sentences = [][2]string{
	{"echo ${x:-`echo hi`}\n", "echo ${x:-$(echo hi)}\n"},
	{"cat <<\"A\\\"B\"\nx\nA\"B\n", ""},
	{"cat <<E\nfoo\\\nE\nE\n", ""},
	{"case x in (esac) a;; esac\n", ""},
	{"cat << -E\nx\n-E\n", ""},
	{">f if\n", ""},
	// open known findings
	{"cat <<''\nx\n\n", ""},
	{"echo `echo \\`echo a\\``\n", "echo $(echo $(echo a))\n"},
	{"echo `echo \\$a`\n", "echo $(echo $a)\n"},
	{"i\\\nf a; then b; fi\n", "if a; then b; fi\n"},
	{"echo a &\\\n& echo b\n", "echo a && echo b\n"},
	{"echo $a\\\nb\n", "echo $ab\n"},
	{"echo ${01}\n", ""},
}

func c02Gen(c *core.Ctx) {
	for _, p := range c02Witnesses() {
		core.Do(c, c02Case{Prog: p, Layouts: 1, Kind: "known-finding-witness"}, c02Exec)
	}
	for _, s := range c02Sentences {
		core.Do(c, c02Case{Src: s[0], Equiv: s[1], Kind: "hand-written"}, c02Exec)
	}
	n := c.Pick(8000, 600000)
	layouts := c.Pick(4, 12)
	pairs := map[string]int{}
	for i := 0; i < n; i++ {
		r := c.Rand("prog", int64(i))
		o := gen.Options{Budget: 4 + r.IntN(14), Heredocs: i%3 == 0, Flat: i%5 == 1, LeadHD: i%7 == 3}
		if i%40 == 7 {
			o.Budget = 60 + r.IntN(200)
		}
		g := gen.New(r, o)
		p := g.Program()
		if c.Mine() {
			for k, v := range g.Pairs {
				pairs[k] += v
			}
			core.Run(c, c02Case{Prog: p, Layouts: layouts, Seed: uint64(c.Seed)*1000003 + uint64(i), Kind: "random"}, c02Exec)
		}
	}
	for k, v := range pairs {
		c.Count("pair/"+k, v)
	}
}

func init() {
	core.Register(&core.Engine{
		ID:          "C02",
		Level:       "exploration",
		Technique:   "runtime monitoring: generator-known expectation — programs derived from the grammar together with their expected position-free skeleton, rendered under randomised grammar-preserving layouts and parsed by the real ParseCommands; skeleton and comment list compared",
		Rule:        "a case is a derivation tree (all productions of parser.go.y and every word form) rendered under 3 (thorough 12) layouts: canonical, tight (no optional blank), and randomised (blanks, tabs, comments before newlines and at end of input, backslash-newline between tokens, blank/comment lines where linebreak is allowed; half of them blanks only). distinct_nontrivial = distinct expected skeletons. counters pair/<parent>><child> give the production-pair coverage.",
		Assumptions: []string{"the expectation encodes the documented node shapes (ast doc comments, parser_test.go builders); adjacent literal runs are compared by text, not by node boundaries"},
		Gen:         c02Gen,
		Replay:      func(c *core.Ctx, raw []byte) { core.ReplayOne(c, raw, c02Exec) },
	})
}
