package props

import (
	"fmt"
	"math/rand/v2"
	"sort"
	"strconv"
	"strings"

	"github.com/hattya/go.sh/ast"
	"github.com/hattya/go.sh/interp"
	"github.com/hattya/go.sh/parser"

	"verif/core"
	ra "verif/refarith"
)

// C11 — arithmetic evaluation against refarith.

type c11Case struct {
	E     *ra.Expr          `json:"e"`
	Store map[string]string `json:"store"` // absent = unset
	Src   string            `json:"src"`   // rendered text (derived from E; kept for the reader)
	Via   string            `json:"via"`   // eval | expand
	Kind  string            `json:"kind"`
}

var c11Vars = []string{"x", "y", "z"}

func num(s string) *ra.Expr             { return &ra.Expr{K: ra.Num, Lit: s} }
func vr(s string) *ra.Expr              { return &ra.Expr{K: ra.Var, Name: s} }
func un(op string, e *ra.Expr) *ra.Expr { return &ra.Expr{K: ra.Unary, Op: op, L: e} }
func bin(op string, l, r *ra.Expr) *ra.Expr {
	return &ra.Expr{K: ra.Binary, Op: op, L: l, R: r}
}

// operand set of the property: {0,1,2,3,7,-1,MaxInt64,MinInt64, 010, 0x1F, x, y}
func c11Leaves() []*ra.Expr {
	return []*ra.Expr{
		num("0"), num("1"), num("2"), num("3"), num("7"),
		un("-", num("1")),
		num("9223372036854775807"),
		&ra.Expr{K: ra.Paren, L: bin("-", un("-", num("9223372036854775807")), num("1"))},
		num("010"), num("0x1F"),
		vr("x"), vr("y"),
	}
}

// variable states: decimal, negative, octal, hex, empty, unset, garbage
var c11States = []struct {
	v   string
	set bool
}{{"5", true}, {"-3", true}, {"010", true}, {"0x1F", true}, {"", true}, {"", false}, {"abc", true}, {"1x", true}, {"08", true}, {"63", true}, {"64", true}, {"-9223372036854775808", true}, {"9223372036854775807", true}, {"0b11", true}, {"1_000", true}, {"0o17", true}, {"0x_f", true}}

func c11Run(env *interp.ExecEnv, cs c11Case) (n int, err error, perr error) {
	if cs.Via == "expand" || cs.Via == "expand-alias" {
		var cmd ast.Command
		var e error
		if cs.Via == "expand-alias" {
			// the same text as the value of an alias: every token then carries the
			// position of the alias word
			penv := interp.NewExecEnv("sh")
			penv.Aliases["al"] = "x $((" + cs.Src + "))"
			var cmds []ast.Command
			cmds, _, e = parser.ParseCommands(penv, "c11", "al")
			if e == nil && len(cmds) == 1 {
				cmd = cmds[0]
			} else if e == nil {
				e = fmt.Errorf("alias source gave %d commands", len(cmds))
			}
		} else {
			cmd, _, e = parser.ParseCommand("c11", "x $(("+cs.Src+"))")
		}
		if e != nil {
			return 0, nil, e
		}
		w := cmd.(*ast.Cmd).Expr.(*ast.SimpleCmd).Args[1]
		f, e := env.Expand(w, 0)
		if e != nil {
			return 0, e, nil
		}
		if len(f) != 1 {
			return 0, nil, fmt.Errorf("arithmetic expansion produced %d fields: %q", len(f), f)
		}
		v, e := strconv.Atoi(f[0])
		if e != nil {
			return 0, nil, fmt.Errorf("arithmetic expansion produced %q", f[0])
		}
		return v, nil, nil
	}
	n, err = env.Eval(cs.Src)
	return n, err, nil
}

// c11Continue puts a backslash-newline into the middle of the k-th (mod n)
// blank-separated piece that has at least two characters.
func c11Continue(src string, k int) string {
	fs := strings.Fields(src)
	var idx []int
	for i, f := range fs {
		if len(f) >= 2 && !strings.ContainsAny(f, "()") {
			idx = append(idx, i)
		}
	}
	if len(idx) == 0 {
		return src
	}
	i := idx[k%len(idx)]
	fs[i] = fs[i][:1] + "\\\n" + fs[i][1:]
	return strings.Join(fs, " ")
}

func c11Env(st map[string]string) *interp.ExecEnv {
	env := interp.NewExecEnv("sh")
	for _, v := range c11Vars {
		env.Unset(v)
	}
	for k, v := range st {
		env.Set(k, v)
	}
	return env
}

func c11Snapshot(env *interp.ExecEnv) map[string]string {
	m := map[string]string{}
	env.Walk(func(v interp.Var) { m[v.Name] = v.Value })
	return m
}

func c11Exec(c *core.Ctx, cs c11Case) {
	want := ra.Eval(cs.E, ra.Store(cs.Store))
	key := fmt.Sprintf("%s | %v | %s", cs.Src, storeStr(cs.Store), cs.Via)
	env := c11Env(cs.Store)
	before := c11Snapshot(env)
	n, err, perr := c11Run(env, cs)
	c.Eval(1)
	c.Count("root/"+rootName(cs.E), 1)
	if perr != nil {
		c.Violation("expand-path", key, "a single decimal field", perr.Error(), "")
		return
	}
	after := c11Snapshot(env)
	// determinism: a second run on a fresh environment gives the same answer
	env2 := c11Env(cs.Store)
	n2, err2, _ := c11Run(env2, cs)
	// (the number returned together with an error is not a result; its schedule dependence is C06's business)
	if (err == nil && n2 != n) || fmt.Sprint(err2) != fmt.Sprint(err) || !mapsEqual(after, c11Snapshot(env2)) {
		c.Violation("nondeterministic", key, fmt.Sprintf("(%d, %v, %v)", n, err, storeStr(pickVars(after))), fmt.Sprintf("(%d, %v, %v)", n2, err2, storeStr(pickVars(c11Snapshot(env2)))), "two runs of the same expression on equal environments differ")
	}
	if err != nil {
		if _, ok := err.(interp.ArithExprError); !ok {
			c.Violation("error-type", key, "ArithExprError", fmt.Sprintf("%T: %v", err, err), "")
		}
	}
	if want.NotJudge != "" {
		c.Skip(want.NotJudge)
		return
	}
	if want.Skipped {
		c.Count("short-circuit/skipped-operand", 1)
		if want.SkippedEffect {
			c.Count("short-circuit/skipped-operand-with-effect-or-fault", 1)
		}
	}
	if want.Fault != "" {
		c.Count("fault/"+want.Fault, 1)
		if err == nil {
			c.Violation("fault-missed", key, "ArithExprError ("+want.Fault+")", fmt.Sprintf("value %d, no error", n), "")
			return
		}
	} else {
		c.Count("fault/none", 1)
		if err != nil {
			c.Violation("bogus-error", key, fmt.Sprintf("value %d", want.Value), err.Error(), "")
			return
		}
		if int64(n) != want.Value {
			c.Violation("value", key, want.Value, n, "")
			return
		}
	}
	// store: exactly the named variables updated; nothing assigned after the first fault
	if want.Fault == ra.BadValue && hasAssign(cs.E) {
		// C leaves the order of a variable read relative to a sibling operand's
		// side effects open: which assignments precede this fault is not judged
		c.Skip("store not judged: non-numeric variable read unsequenced with assignments")
	} else {
		exp := map[string]string{}
		for k, v := range before {
			exp[k] = v
		}
		for _, v := range c11Vars {
			delete(exp, v)
		}
		for k, v := range want.Store {
			exp[k] = v
		}
		if !mapsEqual(exp, after) {
			cl := "store"
			if want.Fault != "" {
				cl = "store-after-fault"
			}
			c.Violation(cl, key, storeStr(pickVars(exp)), storeStr(pickVars(after)), "variable store after the evaluation differs from the reference")
		}
	}
	if depth(cs.E) >= 2 {
		c.Distinct(cs.Src, storeStr(cs.Store))
	}
	if c.Index()%4001 == 0 {
		s := map[string]any{"expr": cs.Src, "store": cs.Store, "via": cs.Via}
		if want.Fault != "" {
			s["expected"] = "fault: " + want.Fault
		} else {
			s["expected"] = want.Value
		}
		s["store_after"] = want.Store
		c.Sample(s)
	}
}

func pickVars(m map[string]string) map[string]string {
	o := map[string]string{}
	for _, v := range c11Vars {
		if x, ok := m[v]; ok {
			o[v] = x
		}
	}
	for k, v := range m {
		if len(k) <= 2 {
			o[k] = v
		}
	}
	return o
}

func mapsEqual(a, b map[string]string) bool {
	if len(a) != len(b) {
		return false
	}
	for k, v := range a {
		if w, ok := b[k]; !ok || w != v {
			return false
		}
	}
	return true
}

func storeStr(m map[string]string) string {
	var ks []string
	for k := range m {
		ks = append(ks, k)
	}
	sort.Strings(ks)
	s := "{"
	for i, k := range ks {
		if i > 0 {
			s += " "
		}
		s += k + "=" + strconv.Quote(m[k])
	}
	return s + "}"
}

func hasAssign(e *ra.Expr) bool {
	if e == nil {
		return false
	}
	switch e.K {
	case ra.Assign, ra.PreInc, ra.PostInc:
		return true
	}
	return hasAssign(e.L) || hasAssign(e.R) || hasAssign(e.C)
}

func depth(e *ra.Expr) int {
	if e == nil {
		return -1
	}
	d := max(depth(e.L), depth(e.R), depth(e.C))
	if e.K == ra.Paren {
		return d
	}
	return d + 1
}

func rootName(e *ra.Expr) string {
	switch e.K {
	case ra.Num:
		return "num"
	case ra.Var:
		return "var"
	case ra.Paren:
		return "paren"
	case ra.Unary:
		return "unary" + e.Op
	case ra.PreInc:
		return "pre" + e.Op
	case ra.PostInc:
		return "post" + e.Op
	case ra.Cond:
		return "?:"
	}
	return e.Op
}

func usedVars(e *ra.Expr, m map[string]bool) {
	if e == nil {
		return
	}
	if e.K == ra.Var {
		m[e.Name] = true
	}
	usedVars(e.L, m)
	usedVars(e.R, m)
	usedVars(e.C, m)
}

// emit runs one expression under the given store through Eval (and, for every
// tenth case, through Expand of a parsed $((...)) word).
func c11Emit(c *core.Ctx, e *ra.Expr, st map[string]string, kind string, r *rand.Rand) {
	if !c.Mine() {
		return
	}
	cs := c11Case{E: e, Store: st, Kind: kind, Via: "eval"}
	toks := ra.Tokens(e)
	if c.Index()%10 == 9 {
		if s := ra.RenderSafe(e); s != "" {
			cs.Via, cs.Src = "expand", s
		}
	}
	if c.Index()%10 == 4 {
		// through Expand with ordinary spacing: tokens that are apart stay apart ("- -x" is not "--x")
		cs.Via, cs.Src = "expand", strings.NewReplacer("\n", " ", "\t", " ").Replace(ra.Render(toks, r, true))
	}
	if c.Index()%10 == 6 {
		// ... and the same when the expansion comes out of an alias value
		cs.Via, cs.Src = "expand-alias", strings.NewReplacer("\n", " ", "\t", " ").Replace(ra.Render(toks, r, true))
	}
	if c.Index()%10 == 7 {
		// ... and with a backslash-newline inside one of the tokens (it is removed before tokens are formed)
		cs.Via, cs.Src = "expand", c11Continue(strings.NewReplacer("\n", " ", "\t", " ").Replace(ra.Render(toks, r, true)), int(c.Index()))
	}
	if cs.Via == "eval" {
		cs.Src = ra.Render(toks, r, c.Index()%3 == 0)
	}
	core.Run(c, cs, c11Exec)
}

// allStores enumerates stores over the variables the expression uses.
func c11Stores(e *ra.Expr, full bool) []map[string]string {
	used := map[string]bool{}
	usedVars(e, used)
	var names []string
	for _, v := range c11Vars {
		if used[v] {
			names = append(names, v)
		}
	}
	states := c11States
	if !full {
		states = states[:7]
	}
	out := []map[string]string{{}}
	for _, n := range names {
		var next []map[string]string
		for _, m := range out {
			for _, s := range states {
				mm := map[string]string{}
				for k, v := range m {
					mm[k] = v
				}
				if s.set {
					mm[n] = s.v
				}
				next = append(next, mm)
			}
		}
		out = next
	}
	return out
}

func c11RandStore(r *rand.Rand) map[string]string {
	m := map[string]string{}
	for _, v := range c11Vars[:2] {
		s := c11States[r.IntN(len(c11States))]
		if r.IntN(3) == 0 {
			s = c11States[r.IntN(6)] // mostly numeric
		}
		if s.set {
			m[v] = s.v
		}
	}
	return m
}

// random tree of exactly the requested depth budget
func c11RandTree(r *rand.Rand, d int, bias string) *ra.Expr {
	leaves := c11Leaves()
	if d <= 0 {
		l := leaves[r.IntN(len(leaves))]
		if r.IntN(25) == 0 {
			return num(pick(r, []string{"08", "0x", "09", "0xG", "9223372036854775808", "00", "0X1f", "077"}))
		}
		return l
	}
	k := r.IntN(100)
	if bias == "shortcircuit" && k < 50 {
		switch r.IntN(3) {
		case 0:
			return bin("&&", c11RandTree(r, d-1, bias), c11RandTree(r, d-1, bias))
		case 1:
			return bin("||", c11RandTree(r, d-1, bias), c11RandTree(r, d-1, bias))
		default:
			return &ra.Expr{K: ra.Cond, C: c11RandTree(r, d-1, bias), L: c11RandTree(r, d-1, bias), R: c11RandTree(r, d-1, bias)}
		}
	}
	if bias == "shortcircuit" && k < 75 {
		k = 80 + r.IntN(20) // assignments / inc / dec
	}
	switch {
	case k < 10:
		return un(pick(r, ra.UnaryOps), c11RandTree(r, d-1, bias))
	case k < 62:
		return bin(pick(r, ra.BinOps), c11RandTree(r, d-1, bias), c11RandTree(r, r.IntN(d), bias))
	case k < 70:
		return &ra.Expr{K: ra.Cond, C: c11RandTree(r, d-1, bias), L: c11RandTree(r, r.IntN(d), bias), R: c11RandTree(r, r.IntN(d), bias)}
	case k < 76:
		return &ra.Expr{K: ra.Paren, L: c11RandTree(r, d, bias)}
	case k < 88:
		var l *ra.Expr = vr(pick(r, c11Vars))
		if r.IntN(12) == 0 {
			l = c11RandTree(r, r.IntN(2), bias) // possibly a non-lvalue
		} else if r.IntN(8) == 0 {
			l = &ra.Expr{K: ra.Paren, L: l}
		}
		return &ra.Expr{K: ra.Assign, Op: pick(r, ra.AssignOps), L: l, R: c11RandTree(r, d-1, bias)}
	default:
		var l *ra.Expr = vr(pick(r, c11Vars))
		if r.IntN(12) == 0 {
			l = c11RandTree(r, 0, bias)
		}
		kd := ra.PreInc
		if r.IntN(2) == 0 {
			kd = ra.PostInc
		}
		return &ra.Expr{K: kd, Op: pick(r, []string{"++", "--"}), L: l}
	}
}

func c11Gen(c *core.Ctx) {
	leaves := c11Leaves()
	r0 := c.Rand("layout", 0)
	// depth 0 and depth 1: exhaustive over operators x operands x variable states
	var d1 []*ra.Expr
	for _, l := range leaves {
		d1 = append(d1, l)
	}
	for _, op := range ra.UnaryOps {
		for _, l := range leaves {
			d1 = append(d1, un(op, l))
		}
	}
	for _, k := range []ra.Kind{ra.PreInc, ra.PostInc} {
		for _, op := range []string{"++", "--"} {
			for _, l := range []*ra.Expr{vr("x"), num("1"), &ra.Expr{K: ra.Paren, L: vr("x")}} {
				d1 = append(d1, &ra.Expr{K: k, Op: op, L: l})
			}
		}
	}
	for _, op := range ra.BinOps {
		for _, l := range leaves {
			for _, rr := range leaves {
				d1 = append(d1, bin(op, l, rr))
			}
		}
	}
	for _, op := range ra.AssignOps {
		for _, l := range []*ra.Expr{vr("x"), num("1")} {
			for _, rr := range leaves {
				d1 = append(d1, &ra.Expr{K: ra.Assign, Op: op, L: l, R: rr})
			}
		}
	}
	small := []*ra.Expr{num("0"), num("1"), num("7"), vr("x"), vr("y")}
	for _, cc := range small {
		for _, l := range small {
			for _, rr := range small {
				d1 = append(d1, &ra.Expr{K: ra.Cond, C: cc, L: l, R: rr})
			}
		}
	}
	for _, e := range d1 {
		for _, st := range c11Stores(e, true) {
			c11Emit(c, e, st, "exhaustive-depth<=1", r0)
		}
	}
	// depth 2: every (root operator, left child shape, right child shape) triple
	shapes := func(r *rand.Rand) []func() *ra.Expr {
		lf := func() *ra.Expr { return leaves[r.IntN(len(leaves))] }
		var out []func() *ra.Expr
		out = append(out, lf)
		for _, op := range ra.UnaryOps {
			op := op
			out = append(out, func() *ra.Expr { return un(op, lf()) })
		}
		for _, op := range ra.BinOps {
			op := op
			out = append(out, func() *ra.Expr { return bin(op, lf(), lf()) })
		}
		out = append(out, func() *ra.Expr { return &ra.Expr{K: ra.Cond, C: lf(), L: lf(), R: lf()} })
		for _, op := range ra.AssignOps {
			op := op
			out = append(out, func() *ra.Expr { return &ra.Expr{K: ra.Assign, Op: op, L: vr(pick(r, c11Vars)), R: lf()} })
		}
		for _, op := range []string{"++", "--"} {
			op := op
			out = append(out, func() *ra.Expr { return &ra.Expr{K: ra.PreInc, Op: op, L: vr(pick(r, c11Vars))} })
			out = append(out, func() *ra.Expr { return &ra.Expr{K: ra.PostInc, Op: op, L: vr(pick(r, c11Vars))} })
		}
		return out
	}
	reps := c.Pick(2, 12)
	rs := c.Rand("depth2", 0)
	sh := shapes(rs)
	for rep := 0; rep < reps; rep++ {
		for _, op := range ra.BinOps {
			for _, a := range sh {
				for _, b := range sh {
					c11Emit(c, bin(op, a(), b()), c11RandStore(rs), "depth2-operator-pairs", rs)
				}
			}
		}
		for _, a := range sh {
			for _, op := range ra.UnaryOps {
				c11Emit(c, un(op, a()), c11RandStore(rs), "depth2-operator-pairs", rs)
			}
			for _, b := range sh {
				for _, cc := range sh[:24] {
					if rs.IntN(4) == 0 {
						c11Emit(c, &ra.Expr{K: ra.Cond, C: cc(), L: a(), R: b()}, c11RandStore(rs), "depth2-operator-pairs", rs)
					}
				}
			}
			for _, op := range ra.AssignOps {
				c11Emit(c, &ra.Expr{K: ra.Assign, Op: op, L: vr(pick(rs, c11Vars)), R: a()}, c11RandStore(rs), "depth2-operator-pairs", rs)
			}
		}
	}
	// sampled deeper trees
	n3 := c.Pick(100000, 15000000)
	for i := 0; i < n3; i++ {
		if !c.Mine() {
			continue
		}
		r := c.Rand("depth3", int64(i))
		bias := ""
		d := 3
		if i%4 == 1 {
			bias, d = "shortcircuit", 3+r.IntN(3)
		}
		e := c11RandTree(r, d, bias)
		cs := c11Case{E: e, Store: c11RandStore(r), Kind: "random-depth3+" + bias, Via: "eval"}
		if i%10 == 9 {
			if s := ra.RenderSafe(e); s != "" {
				cs.Via, cs.Src = "expand", s
			}
		}
		if i%10 == 4 {
			cs.Via, cs.Src = "expand", strings.NewReplacer("\n", " ", "\t", " ").Replace(ra.Render(ra.Tokens(e), r, true))
		}
		if cs.Via == "eval" {
			cs.Src = ra.Render(ra.Tokens(e), r, i%3 == 0)
		}
		core.Run(c, cs, c11Exec)
	}
}

func init() {
	core.Register(&core.Engine{
		ID:        "C11",
		Level:     "exploration",
		Technique: "runtime monitoring: differential oracle (independent tree-walking C evaluator on int64) over exhaustive depth<=1, systematic depth-2 operator pairs and random deeper expression trees; value, error class and variable store compared after every Eval / $((...)) Expand",
		Rule: "a case is (expression tree rendered to text with minimal + redundant parentheses and random blanks, initial store of x,y,z); exhaustive: every operator over the operand set {0,1,2,3,7,-1,MaxInt64,MinInt64,010,0x1F,x,y} at depth<=1 x every combination of 13 variable states (decimal, negative, octal, hex, empty, unset, garbage abc/1x/08, 63, 64, MinInt64, MaxInt64); depth 2: every (root operator, left child shape, right child shape) triple with random operands; then seeded random trees of depth 3-5 (a quarter biased to && || ?: with assignments and faults in skipped operands). Every tenth case goes through Expand of a parsed $((...)) word. " +
			"distinct_nontrivial = distinct judged (text, store) pairs of tree depth >= 2.",
		Assumptions: []string{
			"refarith is a faithful C evaluator on int64 (validated against bash $(( )) at development time)",
			"not judged (executed only): shift count >= 64, MinInt64 / -1, constants above MaxInt64, a variable modified and otherwise accessed without a sequence point, variable values only Go's ParseInt accepts (0b11, 0o7, 1_000), malformed constants / non-lvalue assignments inside an operand C would skip",
			"which of several faults is reported is not judged (pinned by TestEvalError); only that an ArithExprError is returned, the same on two runs",
			"when the first fault is a non-numeric variable value and the expression also assigns, the store is not judged (C leaves the order open)",
		},
		Gen:        c11Gen,
		Replay:     func(c *core.Ctx, raw []byte) { core.ReplayOne(c, raw, c11Exec) },
		Exhaustive: func(string) bool { return true },
		Finish: func(m *core.Merged) string {
			for _, k := range []string{"fault/none", "fault/" + ra.DivZero, "fault/" + ra.NegShift, "fault/" + ra.BadConst, "fault/" + ra.BadValue, "fault/" + ra.NotLvalue, "short-circuit/skipped-operand-with-effect-or-fault"} {
				if m.Counters[k] < 50 {
					return "too few observations of " + k
				}
			}
			var sk int64
			for _, v := range m.Skipped {
				sk += v
			}
			if sk*100 > m.Evals*35 {
				return fmt.Sprintf("%d of %d cases not judged", sk, m.Evals)
			}
			return ""
		},
	})
}

func raRender(e *ra.Expr, r *rand.Rand) string { return ra.Render(ra.Tokens(e), r, false) }
