package props

import (
	"fmt"
	"reflect"
	"strings"

	"github.com/hattya/go.sh/ast"

	"verif/core"
	"verif/gen"
	"verif/skel"
)

// C04 — every recorded position designates the token it documents.  The check
// is intrinsic to (source, AST): the source is indexed by line and rune column
// and the text found at each position is compared with the documented token.

type srcIndex struct {
	runes []rune
	lines []int // rune offset of the start of each line
}

func newSrcIndex(s string) *srcIndex {
	x := &srcIndex{runes: []rune(s), lines: []int{0}}
	for i, r := range x.runes {
		if r == '\n' {
			x.lines = append(x.lines, i+1)
		}
	}
	return x
}

// off returns the rune offset of a position, or -1 when it is outside the source.
func (x *srcIndex) off(p ast.Pos) int {
	if p.Line() < 1 || p.Line() > len(x.lines) || p.Col() < 1 {
		return -1
	}
	o := x.lines[p.Line()-1] + p.Col() - 1
	end := len(x.runes)
	if p.Line() < len(x.lines) {
		end = x.lines[p.Line()] // may point at most just after the newline of its line
	}
	if o > end {
		return -1
	}
	return o
}

func (x *srcIndex) at(p ast.Pos, n int) string {
	o := x.off(p)
	if o < 0 {
		return "<outside>"
	}
	e := o + n
	if e > len(x.runes) {
		e = len(x.runes)
	}
	return string(x.runes[o:e])
}

type posChecker struct {
	x      *srcIndex
	bad    []string
	fields map[string]int
	cont   bool // the source contains line continuations (exclusions apply)
}

func (pc *posChecker) fail(format string, a ...any) {
	if len(pc.bad) < 5 {
		pc.bad = append(pc.bad, fmt.Sprintf(format, a...))
	}
}

// spell checks that the source at p reads tok.
func (pc *posChecker) spell(what string, p ast.Pos, tok string) {
	pc.fields[what]++
	if p.IsZero() {
		pc.fail("%s is the zero position (token %q exists)", what, tok)
		return
	}
	n := len([]rune(tok))
	if got := pc.x.at(p, n); got != tok {
		if pc.cont && strings.Contains(pc.x.at(p, n+2), "\\\n") {
			return // text inside a line continuation: documented exclusion
		}
		pc.fail("%s = %d:%d reads %q, want %q", what, p.Line(), p.Col(), got, tok)
	}
}

func (pc *posChecker) zero(what string, p ast.Pos) {
	pc.fields[what+"(zero)"]++
	if !p.IsZero() {
		pc.fail("%s = %d:%d, want the zero position (no such token)", what, p.Line(), p.Col())
	}
}

// span checks Pos()/End() of a node: inside the source, ordered, non-zero End
// for a node with text; returns the offsets.
func (pc *posChecker) span(what string, n ast.Node, nonEmpty bool) (int, int, bool) {
	pc.fields["Pos/End "+what]++
	p, e := n.Pos(), n.End()
	if !nonEmpty && p.IsZero() && e.IsZero() {
		return 0, 0, false
	}
	po, eo := pc.x.off(p), pc.x.off(e)
	switch {
	case p.IsZero():
		pc.fail("%s.Pos() is zero", what)
	case e.IsZero():
		pc.fail("%s.End() is zero although the node has text (Pos %d:%d)", what, p.Line(), p.Col())
	case po < 0:
		pc.fail("%s.Pos() = %d:%d is outside the source", what, p.Line(), p.Col())
	case eo < 0:
		pc.fail("%s.End() = %d:%d is outside the source", what, e.Line(), e.Col())
	case po > eo:
		pc.fail("%s.Pos() %d:%d is after End() %d:%d", what, p.Line(), p.Col(), e.Line(), e.Col())
	default:
		return po, eo, true
	}
	return 0, 0, false
}

func (pc *posChecker) inside(what string, cp, ce, pp, pe int) {
	if cp < pp || ce > pe {
		pc.fail("%s [%d,%d) is not inside its parent [%d,%d) (rune offsets)", what, cp, ce, pp, pe)
	}
}

func hasHeredoc(v any) bool {
	found := false
	var walk func(reflect.Value, int)
	walk = func(v reflect.Value, d int) {
		if found || d > 100 || !v.IsValid() {
			return
		}
		switch v.Kind() {
		case reflect.Ptr, reflect.Interface:
			if !v.IsNil() {
				if r, ok := v.Interface().(*ast.Redir); ok && (r.Op == "<<" || r.Op == "<<-") {
					found = true
					return
				}
				walk(v.Elem(), d+1)
			}
		case reflect.Struct:
			for i := 0; i < v.NumField(); i++ {
				walk(v.Field(i), d+1)
			}
		case reflect.Slice:
			for i := 0; i < v.Len(); i++ {
				walk(v.Index(i), d+1)
			}
		}
	}
	walk(reflect.ValueOf(v), 0)
	return found
}

// seq checks a sequence of sibling nodes inside a parent span.
func (pc *posChecker) cmds(what string, cmds []ast.Command, pp, pe int, pok bool) {
	prevEnd := -1
	for i, c := range cmds {
		hd := hasHeredoc(c)
		po, eo, ok := pc.command(c)
		if ok && pok && !hd {
			pc.inside(fmt.Sprintf("%s[%d]", what, i), po, eo, pp, pe)
		}
		if ok && prevEnd >= 0 && po < prevEnd {
			pc.fail("%s[%d] starts at offset %d before the end %d of its predecessor", what, i, po, prevEnd)
		}
		if ok && !hd {
			prevEnd = eo
		} else {
			prevEnd = -1
		}
	}
}

func (pc *posChecker) command(c ast.Command) (int, int, bool) {
	switch c := c.(type) {
	case ast.List:
		po, eo, ok := pc.span("List", c, true)
		hd := hasHeredoc(c)
		prev := -1
		for i, ao := range c {
			cp, ce, cok := pc.andor(ao)
			if ok && cok && !hd {
				pc.inside(fmt.Sprintf("List[%d]", i), cp, ce, po, eo)
				if prev >= 0 && cp < prev {
					pc.fail("List[%d] starts before the end of its predecessor", i)
				}
				prev = ce
			}
		}
		return po, eo, ok
	case *ast.AndOrList:
		return pc.andor(c)
	case *ast.Pipeline:
		return pc.pipeline(c)
	case *ast.Cmd:
		return pc.cmd(c)
	}
	pc.fail("unknown command type %T", c)
	return 0, 0, false
}

func (pc *posChecker) andor(ao *ast.AndOrList) (int, int, bool) {
	po, eo, ok := pc.span("AndOrList", ao, true)
	hd := hasHeredoc(ao)
	cp, ce, cok := pc.pipeline(ao.Pipeline)
	if ok && cok && !hd {
		pc.inside("AndOrList.Pipeline", cp, ce, po, eo)
	}
	prev := ce
	for i, x := range ao.List {
		pc.spell("AndOr.OpPos", x.OpPos, x.Op)
		xp, xe, xok := pc.span("AndOr", x, true)
		if xok && ok && !hd {
			pc.inside(fmt.Sprintf("AndOrList.List[%d]", i), xp, xe, po, eo)
			if cok && xp < prev {
				pc.fail("AndOrList.List[%d] starts before the end of its predecessor", i)
			}
			prev = xe
		}
		pp2, pe2, pok2 := pc.pipeline(x.Pipeline)
		if xok && pok2 && !hd {
			pc.inside("AndOr.Pipeline", pp2, pe2, xp, xe)
		}
	}
	if ao.Sep != "" {
		pc.spell("AndOrList.SepPos", ao.SepPos, ao.Sep)
	} else {
		pc.zero("AndOrList.SepPos", ao.SepPos)
	}
	return po, eo, ok
}

func (pc *posChecker) pipeline(p *ast.Pipeline) (int, int, bool) {
	po, eo, ok := pc.span("Pipeline", p, true)
	hd := hasHeredoc(p)
	if !p.Bang.IsZero() {
		pc.spell("Pipeline.Bang", p.Bang, "!")
	}
	cp, ce, cok := pc.cmd(p.Cmd)
	if ok && cok && !hd {
		pc.inside("Pipeline.Cmd", cp, ce, po, eo)
	}
	prev := ce
	for i, x := range p.List {
		pc.spell("Pipe.OpPos", x.OpPos, "|")
		xp, xe, xok := pc.span("Pipe", x, true)
		if xok && ok && !hd {
			pc.inside(fmt.Sprintf("Pipeline.List[%d]", i), xp, xe, po, eo)
			if cok && xp < prev {
				pc.fail("Pipeline.List[%d] starts before the end of its predecessor", i)
			}
			prev = xe
		}
		pc.cmd(x.Cmd)
	}
	return po, eo, ok
}

func (pc *posChecker) redir(r *ast.Redir) (int, int, bool) {
	po, eo, ok := pc.span("Redir", r, true)
	if r.N != nil {
		pc.lit("Redir.N", r.N)
	}
	pc.spell("Redir.OpPos", r.OpPos, r.Op)
	wp, we, wok := pc.word("Redir.Word", r.Word, true)
	if ok && wok && r.Heredoc == nil && r.Delim == nil {
		pc.inside("Redir.Word", wp, we, po, eo)
	}
	if r.Op == "<<" || r.Op == "<<-" {
		pc.word("Redir.Heredoc", r.Heredoc, false)
		pc.word("Redir.Delim", r.Delim, false)
	}
	return po, eo, ok
}

func (pc *posChecker) cmd(c *ast.Cmd) (int, int, bool) {
	po, eo, ok := pc.span("Cmd", c, true)
	hd := hasHeredoc(c)
	chk := func(what string, cp, ce int, cok bool) {
		if ok && cok && !hd {
			pc.inside(what, cp, ce, po, eo)
		}
	}
	for i, r := range c.Redirs {
		rp, re, rok := pc.redir(r)
		// a redirection, here-document included, lies inside its command whatever its rank
		if ok && rok {
			pc.inside(fmt.Sprintf("Cmd.Redirs[%d]", i), rp, re, po, eo)
		}
	}
	switch x := c.Expr.(type) {
	case *ast.SimpleCmd:
		if len(x.Assigns)+len(x.Args) > 0 {
			xp, xe, xok := pc.span("SimpleCmd", x, true)
			chk("Cmd.Expr", xp, xe, xok)
		}
		for _, a := range x.Assigns {
			ap, ae, aok := pc.span("Assign", a, true)
			chk("Assign", ap, ae, aok)
			pc.lit("Assign.Name", a.Name)
			if o := pc.x.off(a.Name.End()); o >= 0 {
				pc.fields["Assign.Op"]++
				if got := pc.x.at(a.Name.End(), len(a.Op)); got != a.Op {
					pc.fail("Assign %s: the text after the name reads %q, want %q", a.Name.Value, got, a.Op)
				}
			}
			if len(a.Value) > 0 {
				vp, ve, vok := pc.word("Assign.Value", a.Value, true)
				if aok && vok {
					pc.inside("Assign.Value", vp, ve, ap, ae)
				}
			}
		}
		prev := -1
		for i, w := range x.Args {
			wp, we, wok := pc.word("SimpleCmd.Args", w, true)
			chk(fmt.Sprintf("SimpleCmd.Args[%d]", i), wp, we, wok)
			if wok && wp < prev {
				pc.fail("SimpleCmd.Args[%d] starts before the end of its predecessor", i)
			}
			if wok {
				prev = we
			}
		}
	case *ast.Subshell:
		xp, xe, xok := pc.span("Subshell", x, true)
		chk("Cmd.Expr", xp, xe, xok)
		pc.spell("Subshell.Lparen", x.Lparen, "(")
		pc.spell("Subshell.Rparen", x.Rparen, ")")
		pc.cmds("Subshell.List", x.List, xp, xe, xok)
	case *ast.Group:
		xp, xe, xok := pc.span("Group", x, true)
		chk("Cmd.Expr", xp, xe, xok)
		pc.spell("Group.Lbrace", x.Lbrace, "{")
		pc.spell("Group.Rbrace", x.Rbrace, "}")
		pc.cmds("Group.List", x.List, xp, xe, xok)
	case *ast.ArithEval:
		xp, xe, xok := pc.span("ArithEval", x, true)
		chk("Cmd.Expr", xp, xe, xok)
		pc.spell("ArithEval.Left", x.Left, "((")
		pc.spell("ArithEval.Right", x.Right, "))")
		pc.word("ArithEval.Expr", x.Expr, false)
	case *ast.ForClause:
		xp, xe, xok := pc.span("ForClause", x, true)
		chk("Cmd.Expr", xp, xe, xok)
		pc.spell("ForClause.For", x.For, "for")
		pc.lit("ForClause.Name", x.Name)
		if x.In.IsZero() {
			if len(x.Items) > 0 {
				pc.fail("ForClause.In is zero although there are items")
			}
		} else {
			pc.spell("ForClause.In", x.In, "in")
		}
		if !x.Semicolon.IsZero() {
			pc.spell("ForClause.Semicolon", x.Semicolon, ";")
		}
		for _, w := range x.Items {
			pc.word("ForClause.Items", w, true)
		}
		pc.spell("ForClause.Do", x.Do, "do")
		pc.spell("ForClause.Done", x.Done, "done")
		pc.cmds("ForClause.List", x.List, xp, xe, xok)
	case *ast.CaseClause:
		xp, xe, xok := pc.span("CaseClause", x, true)
		chk("Cmd.Expr", xp, xe, xok)
		pc.spell("CaseClause.Case", x.Case, "case")
		pc.word("CaseClause.Word", x.Word, true)
		pc.spell("CaseClause.In", x.In, "in")
		pc.spell("CaseClause.Esac", x.Esac, "esac")
		for _, it := range x.Items {
			if !it.Lparen.IsZero() {
				pc.spell("CaseItem.Lparen", it.Lparen, "(")
			}
			for _, p := range it.Patterns {
				pc.word("CaseItem.Patterns", p, true)
			}
			pc.spell("CaseItem.Rparen", it.Rparen, ")")
			if !it.Break.IsZero() {
				pc.spell("CaseItem.Break", it.Break, ";;")
			}
			ip, ie, iok := pc.span("CaseItem", it, true)
			if iok && xok && !hd {
				pc.inside("CaseItem", ip, ie, xp, xe)
			}
			pc.cmds("CaseItem.List", it.List, ip, ie, iok)
		}
	case *ast.IfClause:
		xp, xe, xok := pc.span("IfClause", x, true)
		chk("Cmd.Expr", xp, xe, xok)
		pc.spell("IfClause.If", x.If, "if")
		pc.spell("IfClause.Then", x.Then, "then")
		pc.spell("IfClause.Fi", x.Fi, "fi")
		pc.cmds("IfClause.Cond", x.Cond, xp, xe, xok)
		pc.cmds("IfClause.List", x.List, xp, xe, xok)
		for _, e := range x.Else {
			switch e := e.(type) {
			case *ast.ElifClause:
				pc.spell("ElifClause.Elif", e.Elif, "elif")
				pc.spell("ElifClause.Then", e.Then, "then")
				ep, ee, eok := pc.span("ElifClause", e, true)
				if eok && xok && !hd {
					pc.inside("ElifClause", ep, ee, xp, xe)
				}
				pc.cmds("ElifClause.Cond", e.Cond, ep, ee, eok)
				pc.cmds("ElifClause.List", e.List, ep, ee, eok)
			case *ast.ElseClause:
				pc.spell("ElseClause.Else", e.Else, "else")
				ep, ee, eok := pc.span("ElseClause", e, true)
				if eok && xok && !hd {
					pc.inside("ElseClause", ep, ee, xp, xe)
				}
				pc.cmds("ElseClause.List", e.List, ep, ee, eok)
			}
		}
	case *ast.WhileClause:
		xp, xe, xok := pc.span("WhileClause", x, true)
		chk("Cmd.Expr", xp, xe, xok)
		pc.spell("WhileClause.While", x.While, "while")
		pc.spell("WhileClause.Do", x.Do, "do")
		pc.spell("WhileClause.Done", x.Done, "done")
		pc.cmds("WhileClause.Cond", x.Cond, xp, xe, xok)
		pc.cmds("WhileClause.List", x.List, xp, xe, xok)
	case *ast.UntilClause:
		xp, xe, xok := pc.span("UntilClause", x, true)
		chk("Cmd.Expr", xp, xe, xok)
		pc.spell("UntilClause.Until", x.Until, "until")
		pc.spell("UntilClause.Do", x.Do, "do")
		pc.spell("UntilClause.Done", x.Done, "done")
		pc.cmds("UntilClause.Cond", x.Cond, xp, xe, xok)
		pc.cmds("UntilClause.List", x.List, xp, xe, xok)
	case *ast.FuncDef:
		xp, xe, xok := pc.span("FuncDef", x, true)
		chk("Cmd.Expr", xp, xe, xok)
		pc.lit("FuncDef.Name", x.Name)
		pc.spell("FuncDef.Lparen", x.Lparen, "(")
		pc.spell("FuncDef.Rparen", x.Rparen, ")")
		bp, be, bok := pc.command(x.Body)
		if xok && bok && !hd {
			pc.inside("FuncDef.Body", bp, be, xp, xe)
		}
	case nil:
	default:
		pc.fail("unknown CmdExpr %T", x)
	}
	return po, eo, ok
}

func (pc *posChecker) lit(what string, l *ast.Lit) {
	if l == nil {
		pc.fail("%s is nil", what)
		return
	}
	pc.spell(what, l.ValuePos, l.Value)
}

// word checks a word and its parts; strict: the word is part of a command line
// (its parts must be contiguous and increasing).
func (pc *posChecker) word(what string, w ast.Word, strict bool) (int, int, bool) {
	if len(w) == 0 {
		return 0, 0, false
	}
	po, eo, ok := pc.span(what, w, true)
	prev := -1
	for i, p := range w {
		pp, pe, pok := pc.part(what, p)
		if ok && pok {
			pc.inside(fmt.Sprintf("%s part %d", what, i), pp, pe, po, eo)
			if pp < prev {
				pc.fail("%s part %d starts at %d before the end %d of its predecessor", what, i, pp, prev)
			}
			prev = pe
		}
	}
	_ = strict
	return po, eo, ok
}

func (pc *posChecker) part(what string, p ast.WordPart) (int, int, bool) {
	switch p := p.(type) {
	case *ast.Lit:
		pc.spell(what+" Lit.ValuePos", p.ValuePos, p.Value)
		return pc.span("Lit", p, p.Value != "")
	case *ast.Quote:
		pc.spell(what+" Quote.TokPos", p.TokPos, p.Tok)
		po, eo, ok := pc.span("Quote", p, true)
		for _, q := range p.Value {
			qp, qe, qok := pc.part(what+" in quote", q)
			if ok && qok {
				pc.inside("Quote.Value", qp, qe, po, eo)
			}
		}
		if ok && p.Tok != `\` {
			// the closing quote sits right before End()
			pc.fields["Quote closing"]++
			if eo-1 < 0 || eo-1 >= len(pc.x.runes) || string(pc.x.runes[eo-1]) != p.Tok {
				pc.fail("%s Quote %s…: End() does not follow the closing quote", what, p.Tok)
			}
		}
		return po, eo, ok
	case *ast.ParamExp:
		pc.spell(what+" ParamExp.Dollar", p.Dollar, "$")
		po, eo, ok := pc.span("ParamExp", p, true)
		if p.Name != nil {
			pc.lit(what+" ParamExp.Name", p.Name)
		}
		if p.Op != "" {
			pc.spell(what+" ParamExp.OpPos", p.OpPos, p.Op)
		}
		if p.Braces {
			pc.fields["ParamExp braces"]++
			if got := pc.x.at(p.Dollar, 2); got != "${" {
				pc.fail("%s ParamExp braces: source reads %q", what, got)
			}
			if ok && (eo-1 < 0 || pc.x.runes[eo-1] != '}') {
				pc.fail("%s ParamExp ${%s…}: End() does not follow the closing brace", what, p.Name.Value)
			}
		}
		if len(p.Word) > 0 {
			wp, we, wok := pc.word(what+" ParamExp.Word", p.Word, false)
			if ok && wok {
				pc.inside("ParamExp.Word", wp, we, po, eo)
			}
		}
		return po, eo, ok
	case *ast.CmdSubst:
		po, eo, ok := pc.span("CmdSubst", p, true)
		if p.Dollar {
			pc.spell(what+" CmdSubst.Left", p.Left, "(")
			pc.spell(what+" CmdSubst.Pos()", p.Pos(), "$(")
			pc.spell(what+" CmdSubst.Right", p.Right, ")")
		} else {
			pc.spell(what+" CmdSubst.Left", p.Left, "`")
			pc.spell(what+" CmdSubst.Right", p.Right, "`")
		}
		pc.cmds("CmdSubst.List", p.List, po, eo, ok)
		return po, eo, ok
	case *ast.ArithExp:
		po, eo, ok := pc.span("ArithExp", p, true)
		pc.spell(what+" ArithExp.Left", p.Left, "$((")
		pc.spell(what+" ArithExp.Right", p.Right, "))")
		if len(p.Expr) > 0 {
			wp, we, wok := pc.word(what+" ArithExp.Expr", p.Expr, false)
			if ok && wok {
				pc.inside("ArithExp.Expr", wp, we, po, eo)
			}
		}
		return po, eo, ok
	}
	pc.fail("unknown word part %T", p)
	return 0, 0, false
}

// checkPositions runs the whole intrinsic check; it returns the failures and
// the number of fields checked per kind.
func checkPositions(src string, cmds []ast.Command, comments []*ast.Comment) ([]string, map[string]int) {
	pc := &posChecker{x: newSrcIndex(src), fields: map[string]int{}, cont: strings.Contains(src, "\\\n")}
	pc.cmds("commands", cmds, 0, len(pc.x.runes), true)
	for _, c := range comments {
		pc.spell("Comment.Hash", c.Hash, "#")
		if o := pc.x.off(c.Hash); o >= 0 {
			pc.fields["Comment.Text"]++
			if got := pc.x.at(c.Hash, 1+len([]rune(c.Text))); got != "#"+c.Text {
				pc.fail("Comment at %d:%d reads %q, want %q", c.Hash.Line(), c.Hash.Col(), got, "#"+c.Text)
			}
			// End() designates the last character of the comment (the repository's tests pin Hash + length of Text): in characters, on the same line
			pc.fields["Comment.End"]++
			if e := c.End(); e.Line() != c.Hash.Line() || e.Col() != c.Hash.Col()+len([]rune(c.Text)) {
				pc.fail("Comment.End() = %d:%d, want %d:%d (the last character of %q)", e.Line(), e.Col(), c.Hash.Line(), c.Hash.Col()+len([]rune(c.Text)), "#"+c.Text)
			}
		}
	}
	return pc.bad, pc.fields
}

type c04Case struct {
	Prog   *gen.Program `json:"prog,omitempty"`
	Src    string       `json:"src,omitempty"`
	Layout int          `json:"layout"`
	Seed   uint64       `json:"seed"`
	Kind   string       `json:"kind"`
}

func c04Exec(c *core.Ctx, cs c04Case) {
	src := cs.Src
	if cs.Prog != nil {
		var pol gen.Policy
		switch cs.Layout {
		case 0:
			pol = gen.Canon
		case 1:
			pol = gen.Tight
		default:
			pol, _ = layoutPolicy(randFor(cs.Seed, uint64(cs.Layout)), cs.Layout%2 == 1)
		}
		src = gen.Join(gen.Tokens(cs.Prog, cs.Layout%3 != 2), pol).Text
	}
	cmds, comments, err := parseAll("c04", src)
	c.Eval(1)
	if err != nil {
		c.Skip("source not accepted (C02's business)")
		return
	}
	bad, fields := checkPositions(src, cmds, comments)
	nf := 0
	for k, v := range fields {
		c.Count("field/"+k, v)
		nf += v
	}
	c.Count("position-fields-checked", nf)
	multibyte := false
	for _, r := range src {
		if r > 127 {
			multibyte = true
		}
	}
	if multibyte {
		c.Count("sources-with-multibyte-characters", 1)
	}
	if len(bad) > 0 {
		c.Violation("position", q(src), "every position designates its token", strings.Join(bad, "; "), skel.Cmds(cmds, skel.Strict))
		return
	}
	c.Distinct(src)
	if c.Index()%1009 == 0 {
		c.Sample(map[string]any{"source": src, "fields_checked": nf})
	}
}

func c04Gen(c *core.Ctx) {
	n := c.Pick(15000, 1000000)
	for i := 0; i < n; i++ {
		r := c.Rand("prog", int64(i))
		p := genProgram(r, i)
		for l := 0; l < 4; l++ {
			core.Do(c, c04Case{Prog: p, Layout: l, Seed: uint64(c.Seed)*7919 + uint64(i), Kind: "generated"}, c04Exec)
		}
	}
	// accepted short token strings (arbitrary, not generator-shaped)
	c01TokenStrings(3, func(s string) {
		core.Do(c, c04Case{Src: s, Kind: "token-string"}, c04Exec)
	})
}

func init() {
	core.Register(&core.Engine{
		ID:          "C04",
		Level:       "exploration",
		Technique:   "runtime monitoring: intrinsic (source, AST) invariant — the source text found at every recorded position is compared with the token the field documents; Pos()/End() containment and ordering checked on every node of every accepted parse",
		Rule:        "a case is one source text: generated programs (multi-line, here-documents, nested substitutions, multi-byte names and literals, tabs, comments, continuations) under 4 layouts, plus every accepted string of <=3 tokens of the C01 token alphabet (blank-joined and glued); distinct_nontrivial = distinct accepted sources whose every position field was checked. counters field/<Type.Field> give the number of position fields compared per kind.",
		Assumptions: []string{"documented exclusions: text inside a line continuation, ordering/containment of nodes that carry here-documents (their End() lies after the rest of the line)"},
		Gen:         c04Gen,
		Replay:      func(c *core.Ctx, raw []byte) { core.ReplayOne(c, raw, c04Exec) },
		Finish: func(m *core.Merged) string {
			if m.Counters["position-fields-checked"] < 100000 || m.Counters["sources-with-multibyte-characters"] < 100 {
				return "too few position fields / multi-byte sources observed"
			}
			return ""
		},
	})
}
