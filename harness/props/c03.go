package props

import (
	"fmt"
	"strings"
	"unicode/utf8"

	"github.com/hattya/go.sh/interp"
	"github.com/hattya/go.sh/parser"

	"verif/core"
	"verif/gen"
	"verif/recog"
)

// C03 — ill-formed programs are rejected with a located syntax error.

type c03Tok struct {
	K     int    `json:"k"` // recog.Kind
	Text  string `json:"t"`
	Plain bool   `json:"p,omitempty"`
}

type c03Case struct {
	Toks []c03Tok `json:"toks"`
	Tail string   `json:"tail,omitempty"` // an unterminated lexical construct appended to the rendered tokens
	Raw  string   `json:"raw,omitempty"`  // a source text that must be rejected: it ends inside a here-document, or (kind arith-parens) its "((" has no matching "))" under either reading
	Kind string   `json:"kind"`
	// Aliases: alias table for a Raw case of kind "located"
	Aliases map[string]string `json:"aliases,omitempty"`
}

var c03Vocab = []c03Tok{
	{0, "a", true}, {0, "b=1", true}, {0, "7", true}, {0, "eval", true},
	{0, "!", true}, {0, "{", true}, {0, "}", true}, {0, "for", true}, {0, "case", true}, {0, "esac", true}, {0, "in", true}, {0, "if", true}, {0, "elif", true}, {0, "then", true}, {0, "else", true}, {0, "fi", true}, {0, "while", true}, {0, "until", true}, {0, "do", true}, {0, "done", true},
	{1, "&", false}, {1, "&&", false}, {1, "(", false}, {1, ")", false}, {1, ";", false}, {1, ";;", false}, {1, "|", false}, {1, "||", false},
	{1, "<", false}, {1, ">", false}, {1, ">>", false}, {1, "<&", false}, {1, ">|", false},
	{2, "\n", false},
	{5, "$(", false}, {6, "`", false},
}

// c03Render joins tokens with single blanks (IO numbers glued to their operator).
func c03Render(ts []c03Tok) (string, []int) {
	var b strings.Builder
	var starts []int
	for i, t := range ts {
		starts = append(starts, len([]rune(b.String())))
		b.WriteString(t.Text)
		if i == len(ts)-1 {
			break
		}
		if recog.Kind(t.K) == recog.IONum {
			continue
		}
		if recog.Kind(t.K) == recog.Newline || recog.Kind(ts[i+1].K) == recog.Newline {
			continue
		}
		b.WriteByte(' ')
	}
	return b.String(), starts
}

func c03Exec(c *core.Ctx, cs c03Case) {
	if cs.Raw != "" {
		c03Raw(c, cs)
		return
	}
	var rt []recog.Tok
	for _, t := range cs.Toks {
		rt = append(rt, recog.Tok{K: recog.Kind(t.K), Text: t.Text, Plain: t.Plain})
	}
	verdict, _ := recog.Recognise(rt)
	// a backquote token regroups the text of words that contain a backquote or a
	// backslash themselves (the backquoted text is unescaped before it is parsed):
	// the token reading is not the lexer's any more
	hasBQ, fragile := false, false
	for _, t := range cs.Toks {
		switch recog.Kind(t.K) {
		case recog.BQ:
			hasBQ = true
		case recog.Word, recog.Arith:
			fragile = fragile || strings.ContainsAny(t.Text, "`\\")
		}
	}
	if hasBQ && fragile {
		verdict = recog.Unsure
	}
	src, starts := c03Render(cs.Toks)
	if cs.Tail != "" {
		// the tokens form a valid command without its final newline; the tail opens a
		// quote / expansion / here-document that is never closed
		if verdict != recog.Valid {
			c.Skip("base program not valid for the recogniser")
			return
		}
		starts = append(starts, len([]rune(src))+1)
		src += " " + cs.Tail
		verdict = recog.Incomplete
	}
	c.Count("verdict/"+verdict.String(), 1)
	if verdict == recog.Unsure {
		c.Skip("recogniser unsure (construct not modelled)")
		return
	}
	cmds, _, err := parser.ParseCommands(nil, "c03-name", src)
	c.Eval(1)
	key := q(src)
	if verdict == recog.Valid {
		if err != nil {
			c.Violation("valid-rejected", key, "accepted (the recogniser derives it from the grammar)", err.Error(), "")
		}
		return
	}
	if err == nil {
		c.Violation("accepted-"+verdict.String(), key, "a syntax error ("+verdict.String()+")", fmt.Sprintf("nil error, %d command(s)", len(cmds)), "")
		return
	}
	pe, ok := err.(parser.Error)
	if !ok {
		c.Violation("error-type", key, "parser.Error", fmt.Sprintf("%T: %v", err, err), "")
		return
	}
	c.Distinct(cs.Kind, errClass(pe.Msg))
	if pe.Name != "c03-name" {
		c.Violation("error-name", key, "c03-name", pe.Name, "")
		return
	}
	// the position designates the start of a token (or of a lexical construct) of the source
	x := newSrcIndex(src)
	o := x.off(pe.Pos)
	switch {
	case pe.Pos.IsZero():
		c.Violation("error-position", key, "a non-zero position", "0:0", pe.Msg)
	case o < 0:
		c.Violation("error-position", key, "a position inside the source", fmt.Sprintf("%d:%d", pe.Pos.Line(), pe.Pos.Col()), pe.Msg)
	default:
		okPos := false
		for _, s := range starts {
			if s == o {
				okPos = true
			}
		}
		if !okPos && o < len(x.runes) && strings.ContainsRune("'\"$`({", x.runes[o]) {
			okPos = true
		}
		if cs.Tail != "" && o >= starts[len(starts)-1] && o < len(x.runes) && !strings.ContainsRune(" \t\n", x.runes[o]) {
			okPos = true // a token of the unterminated construct itself
		}
		for i, t := range cs.Toks {
			// (( expr )) is one token here but three for go.sh: any position inside it is a token start
			if recog.Kind(t.K) == recog.Arith && o >= starts[i] && o < starts[i]+len([]rune(t.Text)) {
				okPos = true
			}
		}
		if !okPos {
			c.Violation("error-position", key, "the start of a token or lexical construct", fmt.Sprintf("%d:%d (rune offset %d, token starts %v)", pe.Pos.Line(), pe.Pos.Col(), o, starts), pe.Msg)
		}
	}
	if c.Index()%20011 == 0 {
		c.Sample(map[string]any{"source": src, "verdict": verdict.String(), "error": err.Error()})
	}
}

// c03Raw: a prefix of a valid program that ends inside a here-document body.
func c03Raw(c *core.Ctx, cs c03Case) {
	var env *interp.ExecEnv
	if cs.Aliases != nil {
		env = interp.NewExecEnv("sh")
		for k, v := range cs.Aliases {
			env.Aliases[k] = v
		}
	}
	cmds, _, err := parser.ParseCommands(env, "c03-name", cs.Raw)
	c.Eval(1)
	key := q(cs.Raw)
	why := "the input ends inside a here-document"
	if cs.Kind == "arith-parens" {
		c.Count("verdict/invalid", 1)
		why = `the "((" is not closed by a "))" at its own depth, and read as nested parentheses the text is no command either`
	} else if cs.Kind == "located" || cs.Kind == "rejected" {
		c.Count("verdict/invalid", 1)
		why = "hand-written ill-formed source"
	} else {
		c.Count("verdict/incomplete", 1)
	}
	if err == nil {
		c.Violation("accepted-incomplete", key, "a syntax error ("+why+")", fmt.Sprintf("nil error, %d command(s)", len(cmds)), "")
		return
	}
	pe, ok := err.(parser.Error)
	switch {
	case !ok:
		c.Violation("error-type", key, "parser.Error", fmt.Sprintf("%T: %v", err, err), "")
	case pe.Name != "c03-name":
		c.Violation("error-name", key, "c03-name", pe.Name, "")
	case pe.Pos.IsZero() || newSrcIndex(cs.Raw).off(pe.Pos) < 0:
		c.Violation("error-position", key, "a position inside the source", fmt.Sprintf("%d:%d", pe.Pos.Line(), pe.Pos.Col()), pe.Msg)
	case cs.Kind == "located" && !c03TokenStart(cs.Raw, newSrcIndex(cs.Raw).off(pe.Pos)):
		c.Violation("error-position", key, "the start of a blank-separated token of the source, a newline, or its end", fmt.Sprintf("%d:%d", pe.Pos.Line(), pe.Pos.Col()), pe.Msg)
	default:
		c.Distinct(cs.Kind, errClass(pe.Msg))
	}
}

// c03ArithWrap: sites of an arithmetic command (cmd) or expansion; pre / post are token lists for the recogniser.
var c03ArithWrap = []struct {
	pre, post string
	exp       bool
}{
	{"", "\n", false}, {"echo ", "\n", true}, {"( ", " )\n", false}, {"{ ", "; }\n", false}, {"if ", "; then a; fi\n", false}, {"a | ", " && b\n", false}, {"echo a", "b c\n", true},
}

// c03ArithCase renders x inside "((" "))" at site wi and reports whether the
// text has to be rejected: the "((" finds no "))" at its own depth that ends
// the construct where the text ends (reading A, arithmetic), and with every
// parenthesis taken as an operator of its own (reading B, XCU 2.6.4: "$((" may
// also open a command substitution that starts with a subshell) the
// recogniser finds no command either.
func c03ArithCase(x string, wi int) (string, bool) {
	w := c03ArithWrap[wi]
	open := "(("
	if w.exp {
		open = "$(("
	}
	src := w.pre + open + x + "))" + w.post
	// reading A
	body := x + "))"
	d, closed := 0, -1
	for i := 0; i < len(body) && closed < 0; i++ {
		switch body[i] {
		case '(':
			d++
		case ')':
			if d > 0 {
				d--
			} else if i+1 < len(body) && body[i+1] == ')' {
				closed = i
			} else {
				closed = len(body) // a ")" at depth 0 that is not half of "))": not an arithmetic construct
			}
		}
	}
	if closed == len(x) {
		return src, false // well-formed arithmetic: accepted (C02's business)
	}
	// reading B: tokens
	var rt []recog.Tok
	word := func(s string) {
		if s != "" {
			rt = append(rt, recog.Tok{K: recog.Word, Text: s, Plain: true})
		}
	}
	lex := func(s string) {
		cur := ""
		for i := 0; i < len(s); i++ {
			switch ch := s[i]; ch {
			case ' ':
				word(cur)
				cur = ""
			case '\n':
				word(cur)
				cur = ""
				rt = append(rt, recog.Tok{K: recog.Newline, Text: "\n"})
			case '(', ')', ';', '|', '&':
				word(cur)
				cur = ""
				op := string(ch)
				if (ch == '&' || ch == '|') && i+1 < len(s) && s[i+1] == ch {
					op += op
					i++
				}
				rt = append(rt, recog.Tok{K: recog.Op, Text: op})
			default:
				cur += string(ch)
			}
		}
		word(cur)
	}
	if w.exp {
		// the word that holds "$(" ... ")" is one word for the grammar whatever is glued to it
		lex(strings.TrimRight(w.pre, "a"))
		rt = append(rt, recog.Tok{K: recog.SubOpen, Text: "$("})
		lex("(" + x + "))")
		// text glued to the closing parenthesis continues the word; a ")" left over is an operator
		lex(strings.TrimLeft(w.post, "b"))
	} else {
		lex(src)
	}
	v, _ := recog.Recognise(rt)
	return src, v == recog.Invalid || v == recog.Incomplete
}

// c03TokenStart: rune offset o of src is the end of the source, a newline, or a
// non-blank character that follows a blank, a newline or the start (the
// hand-written "located" sources separate all their tokens by blanks).
func c03TokenStart(src string, o int) bool {
	rs := []rune(src)
	switch {
	case o == len(rs):
		return true
	case o < 0 || o > len(rs) || rs[o] == ' ' || rs[o] == '\t':
		return false
	case rs[o] == '\n' || o == 0:
		return true
	}
	return rs[o-1] == ' ' || rs[o-1] == '\t' || rs[o-1] == '\n'
}

// c03Located: ill-formed sources whose error has to sit on a token: after a
// pending here-document, and in text that comes out of an alias (every position
// is the alias word's then).
var c03Located = []struct {
	src string
	al  map[string]string
}{
	{"{ cat <<E >\nE\n   }\n", nil}, {"{ cat <<E >\nE\n}\n", nil}, {"( cat <<E <\nbody\nE\n )\n", nil}, {"if cat <<E >\nE\n  then a ; fi\n", nil},
	{"{ cat <<E ; ) \nE\n}\n", nil}, {"{ cat <<E <<F >\nE\nF\n   }\n", nil}, {"while a <<E >\nE\n do b ; done\n", nil}, {"{ cat >\n}\n", nil},
	{"x ;   abc   \n", map[string]string{"abc": "(( 1 ) ( ))"}}, {"abc\n", map[string]string{"abc": "(( 1 ) ( ))"}}, {"abc\n", map[string]string{"abc": "echo $(( 1 ) ( ))"}},
	{"al\n", map[string]string{"al": "((1)) $((2))"}}, {"x ; al\n", map[string]string{"al": "((1)) $((2))"}}, {"al\n", map[string]string{"al": "((1)) $(e)"}}, {"x ; al\n", map[string]string{"al": "((1)) $(e)"}},
	{"al\n", map[string]string{"al": "while $((2))"}}, {"al\n", map[string]string{"al": "((1)) `e`"}}, {"  al  \n", map[string]string{"al": "((1)) ${e}"}}, {"al\n", map[string]string{"al": "((1)) \"x\""}},
	{"a ; al b\n", map[string]string{"al": "if x ; then"}}, {"al )\n", map[string]string{"al": "echo "}}, {"al\n", map[string]string{"al": "case x in esac )"}}, {"al\n", map[string]string{"al": "f ( ) ( ( $(a) )"}},
}

func c03FromGen(toks []gen.Tok) []c03Tok {
	var out []c03Tok
	for _, t := range toks {
		switch t.Kind {
		case gen.TWord:
			out = append(out, c03Tok{int(recog.Word), t.Text, plainLexWord(t.Text)})
		case gen.TAssign:
			out = append(out, c03Tok{int(recog.Word), t.Text, true})
		case gen.TRes:
			out = append(out, c03Tok{int(recog.Word), t.Text, true})
		case gen.TIONum:
			out = append(out, c03Tok{int(recog.IONum), t.Text, false})
		case gen.TOp:
			out = append(out, c03Tok{int(recog.Op), t.Text, false})
		case gen.TNewline:
			out = append(out, c03Tok{int(recog.Newline), "\n", false})
		case gen.TArith:
			out = append(out, c03Tok{int(recog.Arith), t.Text, false})
		default:
			return nil
		}
	}
	return out
}

// plainLexWord: the word is a single unquoted literal (so it can be a reserved
// word, a name or an assignment word).
func plainLexWord(s string) bool {
	return s != "" && !strings.ContainsAny(s, "$`'\"\\ \t\n")
}

// fix up a mutated sequence: an IO number must be followed by a redirection
// operator, otherwise it is just a word.
func c03Normalise(ts []c03Tok) []c03Tok {
	out := append([]c03Tok(nil), ts...)
	for i := range out {
		if recog.Kind(out[i].K) == recog.IONum {
			if i+1 >= len(out) || recog.Kind(out[i+1].K) != recog.Op || !strings.ContainsAny(out[i+1].Text[:1], "<>") {
				out[i].K, out[i].Plain = int(recog.Word), true
			}
		}
	}
	return out
}

var c03Reserved = map[string]bool{"!": true, "{": true, "}": true, "for": true, "case": true, "esac": true, "in": true, "if": true, "elif": true, "then": true, "else": true, "fi": true, "while": true, "until": true, "do": true, "done": true}

var c03Damage = []c03Tok{{1, ")", false}, {0, "}", true}, {0, "fi", true}, {0, "done", true}, {0, "esac", true}, {0, "then", true}, {0, "do", true}, {1, ";;", false}, {1, "|", false}, {1, "&&", false}, {1, "(", false}, {0, "{", true}, {5, "$(", false}, {6, "`", false}}

func c03Gen(c *core.Ctx) {
	// 1. exhaustive token strings
	maxLen := c.Pick(4, 4)
	for n := 1; n <= maxLen; n++ {
		idx := make([]int, n)
		for {
			if c.Mine() {
				cs := c03Case{Kind: "token-string"}
				for _, k := range idx {
					cs.Toks = append(cs.Toks, c03Vocab[k])
				}
				core.Run(c, cs, c03Exec)
			}
			k := n - 1
			for k >= 0 {
				idx[k]++
				if idx[k] < len(c03Vocab) {
					break
				}
				idx[k] = 0
				k--
			}
			if k < 0 {
				break
			}
		}
	}
	// 1a. nesting: every string of <=6 (thorough <=7) tokens over the bracketing sub-vocabulary
	nest := []c03Tok{{0, "a", true}, {1, "(", false}, {1, ")", false}, {5, "$(", false}, {6, "`", false}, {1, ";", false}, {0, "{", true}, {0, "}", true}, {2, "\n", false}}
	for n, maxN := 5, c.Pick(6, 7); n <= maxN; n++ {
		idx := make([]int, n)
		for {
			if c.Mine() {
				cs := c03Case{Kind: "nesting-token-string"}
				for _, k := range idx {
					cs.Toks = append(cs.Toks, nest[k])
				}
				core.Run(c, cs, c03Exec)
			}
			k := n - 1
			for k >= 0 {
				idx[k]++
				if idx[k] < len(nest) {
					break
				}
				idx[k] = 0
				k--
			}
			if k < 0 {
				break
			}
		}
	}
	if !core.Quick(c) {
		// seeded sample of length 5-7
		for i := 0; i < 10000000; i++ {
			if !c.Mine() {
				continue
			}
			r := c.Rand("tok57", int64(i))
			cs := c03Case{Kind: "token-string-5-7"}
			for k := 5 + r.IntN(3); k > 0; k-- {
				cs.Toks = append(cs.Toks, pick(r, c03Vocab))
			}
			core.Run(c, cs, c03Exec)
		}
	}
	// 1c. parentheses inside "((" ... "))": every text of <=6 (thorough <=8) characters over ( ) 1 blank,
	// in an arithmetic command and an arithmetic expansion at several sites
	for n, maxN := 0, c.Pick(6, 8); n <= maxN; n++ {
		idx := make([]int, n)
		for {
			if c.Mine() {
				var x strings.Builder
				for _, k := range idx {
					x.WriteByte("()1 "[k])
				}
				for wi := range c03ArithWrap {
					if src, must := c03ArithCase(x.String(), wi); must {
						core.Run(c, c03Case{Raw: src, Kind: "arith-parens"}, c03Exec)
					} else {
						c.Count("arith-parens/not-judged", 1)
					}
				}
			}
			k := n - 1
			for k >= 0 {
				idx[k]++
				if idx[k] < 4 {
					break
				}
				idx[k] = 0
				k--
			}
			if k < 0 {
				break
			}
		}
	}
	// 1d. hand-written ill-formed sources: where the error is located
	for _, d := range c03Located {
		core.Do(c, c03Case{Raw: d.src, Aliases: d.al, Kind: "located"}, c03Exec)
	}
	// 1e. hand-written ill-formed sources around the end of a backquoted substitution: the closing
	// backquote closes nothing else, and what it leaves open stays an error
	for _, src := range []string{"`f(` { a; } )\n", "x=`f(`\n{ a; } )\n", "echo `f(` { a; } ) b\n", "$(echo `f(` { a; } ))\n", "`f(` )\n", "`f (` ) { a; }\n", "`(` a )\n", "`( a` )\n",
		"`{` a; }\n", "`{ a;` }\n", "`if a; then` b; fi\n", "`while a; do` b; done\n", "`case x in` a) b;; esac\n", "`case x in a` ) b;; esac\n", "`for i in` a; do b; done\n", "`a |` b\n", "`a &&` b\n",
		"echo \"`f(`\" { a; } )\n", "echo ${x:-`f(`} { a; } )\n", "`f(` `)` { a; }\n",
		// a name does not begin with a digit, whatever its script
		"for ٣ in a; do :; done\n", "for ٣x in a; do :; done\n", "for １x in a; do :; done\n", "٣() { :; }\n", "１x() { :; }\n", "for 9x in a; do :; done\n", "for x- in a; do :; done\n", "for é* in a; do :; done\n", "x.y() { :; }\n"} {
		core.Do(c, c03Case{Raw: src, Kind: "rejected"}, c03Exec)
	}
	// 1b. prefixes of programs that end inside a here-document body
	nhd := c.Pick(1500, 100000)
	for i := 0; i < nhd; i++ {
		r := c.Rand("hd", int64(i))
		p := gen.New(r, gen.Options{Budget: 1 + r.IntN(6), Heredocs: true, HDBias: true, NoNested: true, Flat: i%2 == 0, LeadHD: i%3 == 0}).Program()
		hds := gen.Heredocs(p)
		rd := gen.Join(gen.Tokens(p, true), nil)
		hi := 0
		for ti, t := range rd.Toks {
			if t.Kind != gen.THereBody || hi >= len(hds) {
				continue
			}
			// another here-document of the same line is still pending after this one
			morePending := ti+1 < len(rd.Toks) && rd.Toks[ti+1].Kind == gen.THereBody
			h := hds[hi]
			hi++
			if gen.HeredocText(h) != t.Text {
				break // (order of bodies differs from the walk order: skip this program)
			}
			delim := h.DelimText
			for cut := 0; cut < len(t.Text)-1; cut++ {
				if cut > 0 && cut < len(t.Text) && !utf8.RuneStart(t.Text[cut]) {
					continue
				}
				part := t.Text[:cut]
				last := part[strings.LastIndexByte(part, '\n')+1:]
				if h.Dash {
					last = strings.TrimLeft(last, "\t")
				}
				if last == delim && !morePending {
					continue // the cut leaves a line equal to the delimiter: a legitimate terminator at end of input
				}
				core.Do(c, c03Case{Raw: rd.Text[:t.Off+cut], Kind: "heredoc-truncation"}, c03Exec)
			}
		}
	}
	// 2. mutants of generated programs (without here-documents)
	nprog := c.Pick(1500, 150000)
	for i := 0; i < nprog; i++ {
		r := c.Rand("prog", int64(i))
		o := gen.Options{Budget: 2 + r.IntN(9), Flat: i%3 == 0}
		p := gen.New(r, o).Program()
		base := c03FromGen(gen.Tokens(p, true))
		if base == nil || len(base) > 60 {
			continue
		}
		emit := func(ts []c03Tok, kind string) {
			core.Do(c, c03Case{Toks: c03Normalise(ts), Kind: kind}, c03Exec)
		}
		emit(base, "unmutated")
		if n := len(base); n > 1 && recog.Kind(base[n-1].K) == recog.Newline {
			for _, tail := range []string{"'x", `"x`, "`x", "$(x", "${x", "$((1", `"${x`, "$(a 'b", "<<E\nbody\n", "<<-'E'\n\tbody", "'x\ny", "a <<E", `"$(x"`, "${a:-`b}", "\"${a:-`b}\"", "${a%%`b}", "$(cat <<E)", "`cat <<E`",
				// constructs that are complete but ill-formed: the length form takes no operator
				"${#a-b}", "${#a:=b}", "${#a%b}", "${#a#}", "\"${#a:-b}\""} {
				core.Do(c, c03Case{Toks: c03Normalise(base[:n-1]), Tail: tail, Kind: "unterminated-construct"}, c03Exec)
			}
		}
		for k := range base {
			// deletion, duplication, adjacent swap
			emit(append(append([]c03Tok{}, base[:k]...), base[k+1:]...), "deletion")
			emit(append(append(append([]c03Tok{}, base[:k+1]...), base[k]), base[k+1:]...), "duplication")
			if k+1 < len(base) {
				s := append([]c03Tok{}, base...)
				s[k], s[k+1] = s[k+1], s[k]
				emit(s, "swap")
			}
			// truncation at every token boundary
			emit(append([]c03Tok{}, base[:k]...), "truncation")
			// a reserved word, a for-loop variable or a function name continued by a
			// quoted / expanded part: one ordinary word, no longer a reserved word or name
			if t := base[k]; recog.Kind(t.K) == recog.Word && t.Plain {
				afterFor := k > 0 && recog.Kind(base[k-1].K) == recog.Word && base[k-1].Plain && base[k-1].Text == "for"
				beforeParen := k+1 < len(base) && recog.Kind(base[k+1].K) == recog.Op && base[k+1].Text == "("
				if c03Reserved[t.Text] || afterFor || beforeParen {
					sfx := []string{`""`, "$y", "'q'", "${z}"}[(i+k)%4]
					d := append([]c03Tok{}, base...)
					d[k] = c03Tok{int(recog.Word), t.Text + sfx, false}
					emit(d, "composite-word")
				}
			}
		}
		for k := 0; k <= len(base); k++ {
			d := c03Damage[(i+k)%len(c03Damage)]
			d2 := c03Damage[(i*7+k*3+1)%len(c03Damage)]
			for _, dd := range []c03Tok{d, d2} {
				s := append(append(append([]c03Tok{}, base[:k]...), dd), base[k:]...)
				emit(s, "insertion")
			}
		}
	}
}

func init() {
	core.Register(&core.Engine{
		ID:          "C03",
		Level:       "exploration",
		Technique:   "runtime monitoring: differential oracle (independent recursive-descent recogniser on token sequences) for accept/reject, plus an intrinsic check of the returned parser.Error (type, Name, position at a token / construct start inside the source)",
		Rule:        "a case is a token sequence rendered with single blanks: every string of <=4 tokens over a 36-token vocabulary (word, assignment word, number word, the name of a special built-in, the 16 reserved words, 13 operators, newline, \"$(\" and a backquote as tokens of their own), every string of 5-6 (thorough 5-7) tokens over the 9-token bracketing sub-vocabulary (a ( ) $( ` ; { } newline) — thorough adds a 3e6 sample of length 5-7 — and, for 1500 (thorough 40000) generated programs without here-documents: the program itself, every single-token deletion, duplication, adjacent swap, truncation at every token boundary, every reserved word / for-loop variable / function name continued by a quoted or expanded part, and two damage tokens (of ) } fi done esac then do ;; | && ( {) inserted at every boundary. The recogniser classifies the first complete command valid / invalid / incomplete / unsure (skipped). distinct_nontrivial = distinct (mutation kind, error message) pairs observed.",
		Assumptions: []string{"the recogniser follows XCU 2.10.2 with go.sh's pinned dialect; a reserved word directly after a redirection of a compound command, and here-document operators, are 'unsure' and skipped", "the message text is not judged"},
		Gen:         c03Gen,
		Replay:      func(c *core.Ctx, raw []byte) { core.ReplayOne(c, raw, c03Exec) },
		Exhaustive:  func(string) bool { return true },
		Finish: func(m *core.Merged) string {
			for _, k := range []string{"valid", "invalid", "incomplete"} {
				if m.Counters["verdict/"+k] < 1000 {
					return "too few " + k + " inputs"
				}
			}
			if m.Counters["verdict/unsure"]*5 > m.Cases {
				return "more than 20% of the inputs were skipped as unsure"
			}
			return ""
		},
	})
}
