package props

import (
	"math/rand/v2"
	"strings"
)

// enumStrings calls f for every string of length lo..hi over the alphabet (in
// length-then-lexicographic order).
func enumStrings(alpha []string, lo, hi int, f func(s string, syms []int)) {
	for n := lo; n <= hi; n++ {
		idx := make([]int, n)
		for {
			var b strings.Builder
			for _, i := range idx {
				b.WriteString(alpha[i])
			}
			f(b.String(), idx)
			k := n - 1
			for k >= 0 {
				idx[k]++
				if idx[k] < len(alpha) {
					break
				}
				idx[k] = 0
				k--
			}
			if k < 0 {
				break
			}
		}
	}
}

func allStrings(alpha []string, lo, hi int) []string {
	var out []string
	enumStrings(alpha, lo, hi, func(s string, _ []int) { out = append(out, s) })
	return out
}

func pick[T any](r *rand.Rand, xs []T) T { return xs[r.IntN(len(xs))] }

func chance(r *rand.Rand, num, den int) bool { return r.IntN(den) < num }

func q(s string) string {
	if len(s) > 200 {
		s = s[:200] + "…"
	}
	return strings.ReplaceAll(strings.ReplaceAll(s, "\n", "⏎"), "\t", "⇥")
}

func randFor(a, b uint64) *rand.Rand { return rand.New(rand.NewPCG(a, b^0x9E3779B97F4A7C15)) }
