package props

import (
	"fmt"
	"math/rand/v2"
	"strings"
	"unicode/utf8"

	"github.com/hattya/go.sh/pattern"

	"verif/core"
	"verif/refpat"
)

// C12 — pattern matching in the four removal modes, against refpat.

type c12Case struct {
	Pats  []string `json:"pats"`
	Subj  string   `json:"subj,omitempty"`  // subject set id ("S2", "S3", "S4") ...
	Subjs []string `json:"subjs,omitempty"` // ... or explicit subjects
	Kind  string   `json:"kind"`
	NYes  int      `json:"n_yes,omitempty"` // kind unterminated-class: the first NYes subjects match, the others do not
}

var c12PatAlpha = []string{"a", "b", "*", "?", "[", "]", "!", "^", "-", "\\", ".", "\n"}
var c12SubAlpha = []string{"a", "b", "-", "]", "[", ".", "\n"}
var c12SubjSets = map[string][]string{}

func c12Subjects(id string) []string {
	if s, ok := c12SubjSets[id]; ok {
		return s
	}
	n := int(id[1] - '0')
	s := allStrings(c12SubAlpha, 0, n)
	c12SubjSets[id] = s
	return s
}

var c12Modes = []struct {
	name string
	gosh pattern.Mode
	ref  int
}{
	{"prefix-smallest", pattern.Prefix | pattern.Smallest, refpat.Prefix | refpat.Smallest},
	{"prefix-largest", pattern.Prefix | pattern.Largest, refpat.Prefix | refpat.Largest},
	{"suffix-smallest", pattern.Suffix | pattern.Smallest, refpat.Suffix | refpat.Smallest},
	{"suffix-largest", pattern.Suffix | pattern.Largest, refpat.Suffix | refpat.Largest},
}

// c12Table: single-character subjects a pattern must match in full / must not
// match (hand-written expectations for shapes the model does not judge).
func c12Table(c *core.Ctx, cs c12Case) {
	for i, s := range cs.Subjs {
		want := i < cs.NYes
		got, err := pattern.Match(cs.Pats, pattern.Largest|pattern.Prefix, s)
		c.Eval(1)
		key := fmt.Sprintf("%q Largest|Prefix %q", cs.Pats, s)
		switch {
		case err != nil && err != pattern.NoMatch:
			c.Violation("table", key, fmt.Sprintf("match=%v", want), "error: "+err.Error(), "")
		case (err == nil && got == s) != want:
			c.Violation("table", key, fmt.Sprintf("match=%v", want), fmt.Sprintf("(%q, %v)", got, err), "")
		}
		c.Count("judged/table", 1)
	}
	c.Distinct(cs.Kind, fmt.Sprint(cs.Pats))
}

func c12Exec(c *core.Ctx, cs c12Case) {
	if cs.Kind == "unterminated-class" {
		c12Table(c, cs)
		return
	}
	var ps []*refpat.Pattern
	class := refpat.OK
	why := ""
	for _, p := range cs.Pats {
		pp := refpat.Parse(p)
		ps = append(ps, pp)
		if pp.Class == refpat.Strict || (pp.Class == refpat.Lenient && class == refpat.OK) {
			class, why = pp.Class, pp.Why
		}
	}
	subjs := cs.Subjs
	if cs.Subj != "" {
		subjs = c12Subjects(cs.Subj)
	}
	cname := [...]string{"ok", "malformed-strict", "malformed-lenient"}[class]
	nontrivial := false
	for _, s := range subjs {
		for _, m := range c12Modes {
			got, err := pattern.Match(cs.Pats, m.gosh, s)
			c.Eval(1)
			key := fmt.Sprintf("%q %s %q", cs.Pats, m.name, s)
			switch class {
			case refpat.Strict:
				c.Count("judged/"+cname, 1)
				if err == nil || err == pattern.NoMatch {
					c.Violation("malformed-accepted", key, "an error other than NoMatch ("+why+")", fmt.Sprintf("(%q, %v)", got, err), "")
				}
			case refpat.Lenient:
				c.Count("executed-not-judged/"+cname, 1)
			default:
				want, ok := refpat.Remove(ps, m.ref, s)
				c.Count("judged/"+m.name, 1)
				if ok {
					c.Count("expected-match", 1)
					if want != "" {
						nontrivial = true
					}
				} else {
					c.Count("expected-nomatch", 1)
				}
				switch {
				case ok && err != nil:
					c.Violation("match-missed", key, fmt.Sprintf("%q", want), fmt.Sprintf("(%q, %v)", got, err), "")
				case !ok && err != pattern.NoMatch:
					c.Violation("bogus-match", key, "NoMatch", fmt.Sprintf("(%q, %v)", got, err), "")
				case ok && len(cs.Pats) == 1 && got != want:
					c.Violation("wrong-extent", key, fmt.Sprintf("%q", want), fmt.Sprintf("%q", got), "")
				case ok && len(cs.Pats) > 1:
					// several patterns: the result must be a prefix/suffix one of them matches as a whole
					isPart := strings.HasPrefix(s, got)
					if m.ref&refpat.Suffix != 0 {
						isPart = strings.HasSuffix(s, got)
					}
					if !isPart || !refpat.AnyWhole(ps, got) {
						c.Violation("wrong-extent-multi", key, "a prefix/suffix matched by one of the patterns, e.g. "+fmt.Sprintf("%q", want), fmt.Sprintf("%q", got), "")
					}
				}
			}
		}
	}
	if class == refpat.OK && nontrivial {
		c.Distinct(strings.Join(cs.Pats, "\x00"), cs.Subj, strings.Join(cs.Subjs, "\x00"))
	}
	if c.Index()%997 == 0 {
		c.Sample(map[string]any{"patterns": cs.Pats, "subjects": len(subjs), "class": cname, "kind": cs.Kind})
	}
}

// random pattern generation: element list -> pattern text + subjects
var c12Runes = []rune{'a', 'b', 'c', 'z', 'A', '0', '9', '-', ']', '[', '.', '+', '(', ')', '|', '{', '}', '^', '$', '\\', '*', '?', '!', ' ', '\n', '\t', 'é', 'ß', '日', '本', '😀', ':', '=', '/'}
var c12ClassNames = []string{"alnum", "alpha", "blank", "cntrl", "digit", "graph", "lower", "print", "punct", "space", "upper", "xdigit"}

func c12RandPattern(r *rand.Rand) (pat string, inst func(*rand.Rand) string) {
	n := 1 + r.IntN(7)
	var b strings.Builder
	var gens []func(*rand.Rand) string
	esc := func(x rune) string {
		switch x {
		case '*', '?', '[', '\\':
			return "\\" + string(x)
		}
		if chance(r, 1, 6) {
			return "\\" + string(x)
		}
		return string(x)
	}
	for i := 0; i < n; i++ {
		switch k := r.IntN(10); {
		case k < 4:
			x := pick(r, c12Runes)
			b.WriteString(esc(x))
			gens = append(gens, func(*rand.Rand) string { return string(x) })
		case k < 5:
			b.WriteByte('?')
			gens = append(gens, func(r *rand.Rand) string { return string(pick(r, c12Runes)) })
		case k < 7:
			b.WriteByte('*')
			gens = append(gens, func(r *rand.Rand) string {
				var s strings.Builder
				for j := r.IntN(4); j > 0; j-- {
					s.WriteRune(pick(r, c12Runes))
				}
				return s.String()
			})
		default:
			// bracket expression
			neg := chance(r, 1, 3)
			b.WriteByte('[')
			if neg {
				b.WriteString(pick(r, []string{"!", "^"}))
			}
			var members []rune
			m := 1 + r.IntN(3)
			for j := 0; j < m; j++ {
				switch r.IntN(6) {
				case 0:
					cn := pick(r, c12ClassNames)
					b.WriteString("[:" + cn + ":]")
					for _, x := range c12Runes {
						if refpat.Parse("[[:" + cn + ":]]").MatchWhole([]rune{x}) {
							members = append(members, x)
						}
					}
				case 1:
					span := map[rune]int{'a': 26, 'A': 26, '0': 10, 'é': 20, '$': 4}
					lo := pick(r, []rune{'a', 'A', '0', 'é', '$'})
					hi := lo + rune(r.IntN(span[lo]))
					b.WriteString(string(lo) + "-" + string(hi))
					members = append(members, lo, hi)
				default:
					x := pick(r, c12Runes)
					switch {
					case x == ']' && j == 0:
						b.WriteByte(']')
					case x == ']' || x == '\\' || x == '-' || x == '[' || x == '!' || x == '^':
						b.WriteString("\\" + string(x))
					default:
						b.WriteRune(x)
					}
					members = append(members, x)
				}
			}
			b.WriteByte(']')
			ms := members
			gens = append(gens, func(r *rand.Rand) string {
				if neg || len(ms) == 0 {
					return string(pick(r, c12Runes))
				}
				return string(pick(r, ms))
			})
		}
	}
	return b.String(), func(r *rand.Rand) string {
		var s strings.Builder
		for _, g := range gens {
			s.WriteString(g(r))
		}
		return s.String()
	}
}

func c12Perturb(r *rand.Rand, s string) string {
	rs := []rune(s)
	switch r.IntN(4) {
	case 0:
		if len(rs) > 0 {
			i := r.IntN(len(rs))
			rs = append(rs[:i:i], rs[i+1:]...)
		}
	case 1:
		i := r.IntN(len(rs) + 1)
		rs = append(rs[:i:i], append([]rune{pick(r, c12Runes)}, rs[i:]...)...)
	case 2:
		if len(rs) > 0 {
			rs[r.IntN(len(rs))] = pick(r, c12Runes)
		}
	case 3:
		// surround: something before and after, so prefix/suffix extents differ from the whole
		rs = append([]rune{pick(r, c12Runes)}, append(rs, pick(r, c12Runes))...)
	}
	return string(rs)
}

func c12Gen(c *core.Ctx) {
	// exhaustive slices
	type slice struct {
		plo, phi int
		subj     string
	}
	var slices []slice
	if core.Quick(c) {
		slices = []slice{{0, 4, "S2"}, {0, 3, "S3"}}
	} else {
		slices = []slice{{0, 5, "S2"}, {0, 4, "S4"}}
	}
	for _, sl := range slices {
		enumStrings(c12PatAlpha, sl.plo, sl.phi, func(p string, _ []int) {
			core.Do(c, c12Case{Pats: []string{p}, Subj: sl.subj, Kind: "exhaustive"}, c12Exec)
		})
	}
	if core.Quick(c) {
		// a 1/16 slice (chosen by the seed) of the 5-symbol patterns, which the thorough tier enumerates completely
		k := 0
		enumStrings(c12PatAlpha, 5, 5, func(p string, _ []int) {
			k++
			if k%16 == int(c.Seed%16) {
				core.Do(c, c12Case{Pats: []string{p}, Subj: "S2", Kind: "exhaustive-slice"}, c12Exec)
			}
		})
	}
	// U+FFFD is an ordinary character when it is validly encoded
	for _, p := range []string{"*", "*b", "?", "*?", "\ufffd", "\\\ufffd", "[\ufffd]", "a\ufffd*", "*ab", "[!a]*", "*\\\ufffdb"} {
		core.Do(c, c12Case{Pats: []string{p}, Subjs: []string{"a\ufffd", "a\ufffdb", "\ufffd", "\ufffdab", "x\ufffdab", "日\ufffd", "\ufffd\ufffd", ""}, Kind: "replacement-character"}, c12Exec)
	}
	// an escaped : . = right after "[" inside a bracket expression is an ordinary member, not the start of a class
	for _, p := range []string{`[[\:alpha:]]`, `[![\:digit:]]`, `[a[\.b]`, `[[\=a=]]`, `[[\:]`, `*[[\:alpha:]]`, `[[\:alpha:]]*`} {
		core.Do(c, c12Case{Pats: []string{p}, Subjs: []string{"z", "a]", ":]", "[]", "5]", "a", "[", ":", "=]", "a=]", ".", "b", "xa]"}, Kind: "escaped-class-opener"}, c12Exec)
	}
	// "[:" "[." "[=" without their closing pair are ordinary members (the repository pins "[[:digit]"):
	// what follows is still inside the bracket.  (Whether "[" itself is a member differs between shells: not asked.)
	for _, t := range []struct {
		pat     string
		yes, no []string
	}{
		{"[[:a*]", []string{"*", ":", "a"}, []string{"(", ")", "?", "s", "x", "."}}, {"[x[=?]", []string{"x", "=", "?"}, []string{"(", ")", "s", ":", "a"}},
		{"[![:a*]", []string{"s", "(", ")", "?", "x", "."}, []string{"*", ":", "a"}}, {"[[:a[!x]", []string{"!", ":", "a", "x"}, []string{"^", "b", "y"}},
		{`[[:a\-z]`, []string{"-", ":", "a", "z"}, []string{"m", "s", "x", "b"}}, {"[[.*]", []string{"*", "."}, []string{"?", "s", "("}}, {"[[:digit]", []string{":", "d", "t"}, []string{"5", "a"}},
		{"[[:?]", []string{":", "?"}, []string{")", "s", "."}}, {"[[=a*b]", []string{"=", "a", "*", "b"}, []string{"c", "s", "("}},
	} {
		core.Do(c, c12Case{Pats: []string{t.pat}, Subjs: append(append([]string{}, t.yes...), t.no...), NYes: len(t.yes), Kind: "unterminated-class"}, c12Exec)
	}
	// random single and multi-pattern cases
	n := c.Pick(20000, 400000)
	for i := 0; i < n; i++ {
		if !c.Mine() {
			continue
		}
		r := c.Rand("rand", int64(i))
		np := 1
		if i%4 == 3 {
			np = 2 + r.IntN(2)
		}
		cs := c12Case{Kind: "random"}
		var insts []func(*rand.Rand) string
		for j := 0; j < np; j++ {
			p, inst := c12RandPattern(r)
			cs.Pats = append(cs.Pats, p)
			insts = append(insts, inst)
		}
		for j := 0; j < 6; j++ {
			s := pick(r, insts)(r)
			if j%2 == 1 {
				s = c12Perturb(r, s)
			}
			if j >= 4 {
				s = c12Perturb(r, s)
			}
			if utf8.ValidString(s) {
				cs.Subjs = append(cs.Subjs, s)
			}
		}
		core.Run(c, cs, c12Exec)
	}
}

func init() {
	core.Register(&core.Engine{
		ID:        "C12",
		Level:     "exploration",
		Technique: "runtime monitoring: differential oracle (independent backtracking matcher) over exhaustive short and random long (pattern, subject, mode) executions of pattern.Match in isolated workers",
		Rule: "cases = one pattern set x a subject set x the 4 mode combinations; exhaustive: every pattern of <=4 (thorough <=5) symbols over {a b * ? [ ] ! ^ - \\ . newline} x every subject of <=2 symbols over {a b - ] [ . newline}, and patterns <=3 (thorough <=4) x subjects <=3 (thorough <=4); random: element-list generated patterns (classes, ranges, escapes, multi-byte, regexp metacharacters; 1-3 patterns per call) with subjects obtained by instantiating the pattern and perturbing the instance. " +
			"distinct_nontrivial counts distinct well-formed (pattern set, subject set) pairs for which the reference yields at least one non-empty match.",
		Assumptions: []string{"refpat (harness/refpat) is a faithful reading of XCU 2.13 in the C locale; validated at design time against bash/dash `case`", "patterns classified malformed-lenient (reversed range, [.x.], [=x=], unknown class, unterminated [: inside a bracket) are executed for no-panic only"},
		Gen:         c12Gen,
		Replay:      func(c *core.Ctx, raw []byte) { core.ReplayOne(c, raw, c12Exec) },
		Exhaustive:  func(string) bool { return true },
		Finish: func(m *core.Merged) string {
			for _, k := range []string{"judged/prefix-smallest", "judged/prefix-largest", "judged/suffix-smallest", "judged/suffix-largest", "judged/malformed-strict", "expected-match", "expected-nomatch"} {
				if m.Counters[k] < 1000 {
					return "too few observations of " + k
				}
			}
			return ""
		},
	})
}
