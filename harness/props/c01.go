package props

import (
	"bytes"
	"fmt"
	"io"
	"math/rand/v2"
	"runtime"
	"sort"
	"strings"
	"time"
	"unicode/utf8"

	"github.com/hattya/go.sh/interp"
	"github.com/hattya/go.sh/parser"

	"verif/core"
	"verif/gen"
	"verif/mon"
	"verif/sched"
)

// C01 — parsing is total: any source, any alias table, both panicnil settings.

type c01Case struct {
	Src     []byte            `json:"src"`
	Aliases map[string]string `json:"aliases,omitempty"`
	AllKind bool              `json:"all_kinds,omitempty"` // deliver through all four source kinds
	Flaky   bool              `json:"flaky,omitempty"`     // deliver through readers with one transient failure, at every position
	Persist bool              `json:"persist,omitempty"`   // deliver through readers that fail at position k and at every later call, for every k
	Shape   string            `json:"shape,omitempty"`     // a scaling family (work-bound probe)
	Forced  bool              `json:"forced,omitempty"`    // run under forced schedules (here-document hand-over)
	Kind    string            `json:"kind"`
}

// the shell's significant token alphabet
var c01Tokens = []string{
	"a", "b=1", "7",
	"!", "{", "}", "for", "case", "esac", "in", "if", "elif", "then", "else", "fi", "while", "until", "do", "done",
	"&", "&&", "(", ")", "((", "))", ";", ";;", "|", "||", "<", ">", ">|", ">>", "<<", "<<-", "<&", ">&", "<>",
	"\n",
	"'", `"`, `\`, "$", "${", "$(", "`", "$((", "#", "$x", "${x:-", "~",
}
var c01Chars = []string{"a", "1", "=", " ", "\n", "'", `"`, `\`, "$", "{", "}", "(", ")", "`", "<", ">", "-", ";", "|", "&", "#"}

// c01TokenStrings enumerates every string of 1..maxLen tokens joined by a blank
// and joined by nothing.
func c01TokenStrings(maxLen int, f func(s string)) {
	for _, sep := range []string{" ", ""} {
		for n := 1; n <= maxLen; n++ {
			idx := make([]int, n)
			for {
				parts := make([]string, n)
				for i, k := range idx {
					parts[i] = c01Tokens[k]
				}
				f(strings.Join(parts, sep))
				k := n - 1
				for k >= 0 {
					idx[k]++
					if idx[k] < len(c01Tokens) {
						break
					}
					idx[k] = 0
					k--
				}
				if k < 0 {
					break
				}
			}
		}
	}
}

type oneByteReader struct{ b []byte }

func (r *oneByteReader) Read(p []byte) (int, error) {
	if len(r.b) == 0 {
		return 0, io.EOF
	}
	if len(p) == 0 {
		return 0, nil
	}
	p[0] = r.b[0]
	r.b = r.b[1:]
	return 1, nil
}

// flakyReader / flakyScanner fail exactly once, with a non-EOF error, when the
// read position reaches k, and then go on delivering the data (a timed-out
// network read; bufio turns every flaky io.Reader into this shape).
type flakyReader struct {
	b       []byte
	i, k    int
	fired   bool
	persist bool
}

var errFlaky = fmt.Errorf("transient read failure")

func (r *flakyReader) Read(p []byte) (int, error) {
	if r.i == r.k && (!r.fired || r.persist) {
		r.fired = true
		return 0, errFlaky
	}
	if r.i >= len(r.b) {
		return 0, io.EOF
	}
	if len(p) == 0 {
		return 0, nil
	}
	p[0] = r.b[r.i]
	r.i++
	return 1, nil
}

type flakyScanner struct {
	r       *bytes.Reader
	i, k    int
	fired   bool
	persist bool
}

func (s *flakyScanner) ReadRune() (rune, int, error) {
	if s.i == s.k && (!s.fired || s.persist) {
		s.fired = true
		return 0, 0, errFlaky
	}
	s.i++
	return s.r.ReadRune()
}
func (s *flakyScanner) UnreadRune() error { s.i--; return s.r.UnreadRune() }

// countingScanner is a custom io.RuneScanner that counts calls.
type countingScanner struct {
	r       *bytes.Reader
	reads   int
	unreads int
}

func (s *countingScanner) ReadRune() (rune, int, error) { s.reads++; return s.r.ReadRune() }
func (s *countingScanner) UnreadRune() error            { s.unreads++; return s.r.UnreadRune() }

var c01Base int64

func c01Quiesce(c *core.Ctx) {
	n := mon.Quiesce(300 * time.Millisecond)
	if n > c01Base {
		c.Count("lexer-goroutines-still-alive-after-return", int(n-c01Base))
	}
	c01Base = n
}

// c01Shapes are input families that scale with n; the work the parser does on
// them must grow about linearly.  Work is measured in bytes allocated during the
// call (a logical quantity, not wall-clock time): S(4n) / S(n) <= 7.
var c01Shapes = map[string]func(n int) string{
	"heredoc-plain-lines":  func(n int) string { return "cat <<E\n" + strings.Repeat("line of text\n", n) + "E\n" },
	"heredoc-quoted-lines": func(n int) string { return "cat <<'E'\n" + strings.Repeat("line of text\n", n) + "E\n" },
	"heredoc-expansions":   func(n int) string { return "cat <<E\n" + strings.Repeat("a $x `c` \\$ b\n", n) + "E\n" },
	"heredoc-dash-tabs":    func(n int) string { return "cat <<-E\n" + strings.Repeat("\tline\n", n) + "\tE\n" },
	"commands-in-braces":   func(n int) string { return "{ " + strings.Repeat("a b c; ", n) + "}\n" },
	"commands-on-lines":    func(n int) string { return "{\n" + strings.Repeat("a b c\n", n) + "}\n" },
	"arguments":            func(n int) string { return "echo" + strings.Repeat(" arg", n) + "\n" },
	"long-word":            func(n int) string { return "echo " + strings.Repeat("ab", n) + "\n" },
	"quoted-parts":         func(n int) string { return "echo " + strings.Repeat("'a'\"b\"\\c$d", n) + "\n" },
	"pipeline":             func(n int) string { return "a" + strings.Repeat(" | a", n) + "\n" },
	"and-or":               func(n int) string { return "a" + strings.Repeat(" && a || b", n) + "\n" },
	"case-items":           func(n int) string { return "case x in " + strings.Repeat("a|b) c ;; ", n) + "esac\n" },
	"elif-chain":           func(n int) string { return "if a; then b; " + strings.Repeat("elif a; then b; ", n) + "fi\n" },
	"nested-subshells":     func(n int) string { return strings.Repeat("( ", n) + "a" + strings.Repeat(" )", n) + "\n" },
	"nested-cmdsubst":      func(n int) string { return "echo " + strings.Repeat("$(a ", n/4) + strings.Repeat(")", n/4) + "\n" },
	"nested-braces-param":  func(n int) string { return "echo " + strings.Repeat("${a:-", n) + "b" + strings.Repeat("}", n) + "\n" },
	"comments":             func(n int) string { return "{\n" + strings.Repeat("# comment line\na\n", n) + "}\n" },
	"line-continuations":   func(n int) string { return "echo" + strings.Repeat(" \\\na", n) + "\n" },
	"redirections":         func(n int) string { return "a" + strings.Repeat(" >f 2>&1", n) + "\n" },
	"arith":                func(n int) string { return "echo $((" + strings.Repeat("1 + ", n) + "1))\n" },
}

func c01Work(src string) (alloc uint64, err error) {
	var m0, m1 runtime.MemStats
	runtime.ReadMemStats(&m0)
	_, _, err = parser.ParseCommands(nil, "c01", src)
	runtime.ReadMemStats(&m1)
	return m1.TotalAlloc - m0.TotalAlloc, err
}

func c01Scaling(c *core.Ctx, cs c01Case) {
	f := c01Shapes[cs.Shape]
	n := 1500
	a1, err1 := c01Work(f(n))
	a4, err4 := c01Work(f(4 * n))
	c.Eval(2)
	c01Quiesce(c)
	c.Count("scaling-shapes", 1)
	if (err1 == nil) != (err4 == nil) {
		c.Violation("scaling", "scaling: "+cs.Shape, "the same verdict at both sizes", fmt.Sprintf("n=%d: %v; n=%d: %v", n, err1, 4*n, err4), "")
		return
	}
	ratio := float64(a4) / float64(a1+1)
	c.Max("max_alloc_ratio_x100", int64(100*ratio))
	if ratio > 7 {
		c.Violation("work-bound", "scaling: "+cs.Shape, "bytes allocated grow about linearly with the input (x4 input -> <= x7)", fmt.Sprintf("n=%d: %d bytes, n=%d: %d bytes (x%.1f)", n, a1, 4*n, a4, ratio), "")
	}
}

func c01Exec(c *core.Ctx, cs c01Case) {
	if cs.Shape != "" {
		c01Scaling(c, cs)
		return
	}
	if cs.Forced {
		// the rare interleavings around the here-document hand-over are forced through
		// the hooks: the call must still return under each of them
		for _, m := range []sched.Mode{{Default: true, HoldPopWait: true}, {Default: true}, {Default: false}, {Default: false, LateReturn: true}} {
			_, _, _, res := parseSched(string(cs.Src), m)
			c.Eval(1)
			c.Count("forced-schedule-runs", 1)
			if res.PopWaitBeforePush {
				c.Count("forced/lexer-waited-for-the-here-document-first", 1)
			}
		}
		c01Quiesce(c)
		return
	}
	var env *interp.ExecEnv
	if len(cs.Aliases) > 0 {
		env = interp.NewExecEnv("sh")
		for k, v := range cs.Aliases {
			env.Aliases[k] = v
		}
	}
	kinds := []int{int(c.Index() % 6)}
	if cs.AllKind {
		kinds = []int{0, 1, 2, 3}
	}
	n := utf8.RuneCount(cs.Src)
	if cs.Flaky || cs.Persist {
		// a transient (Persist: a lasting) read failure at every position, through both reader kinds
		kinds = nil
		for k := 0; k <= len(cs.Src); k++ {
			kinds = append(kinds, 4+2*k)
			if k <= n {
				kinds = append(kinds, 5+2*k)
			}
		}
	}
	for _, k := range kinds {
		var src any
		var cnt *countingScanner
		fk := 0
		if k >= 4 {
			fk = (k - 4) / 2
			k = 4 + (k-4)%2
			if !cs.Flaky && !cs.Persist {
				fk = int(c.Index()/6) % (len(cs.Src) + 1)
			}
		}
		switch k {
		case 4:
			src = &flakyReader{b: append([]byte(nil), cs.Src...), k: fk, persist: cs.Persist}
		case 5:
			src = &flakyScanner{r: bytes.NewReader(cs.Src), k: fk, persist: cs.Persist}
		case 0:
			src = string(cs.Src)
		case 1:
			src = append([]byte(nil), cs.Src...)
		case 2:
			src = &oneByteReader{b: append([]byte(nil), cs.Src...)}
		default:
			cnt = &countingScanner{r: bytes.NewReader(cs.Src)}
			src = cnt
		}
		s0 := mon.Substs.Load()
		cmds, _, err := parser.ParseCommands(env, "c01", src)
		c.Eval(1)
		c.Count(fmt.Sprintf("source-kind/%d", k), 1)
		switch {
		case err != nil:
			if pe, ok := err.(parser.Error); ok {
				c.Distinct("err", errClass(pe.Msg))
			}
			c.Count("result/error", 1)
		case len(cmds) == 0:
			c.Count("result/empty", 1)
		default:
			c.Count("result/commands", 1)
		}
		c01Quiesce(c)
		// logical work bounds (a livelock shows here, not in the wall clock)
		if cnt != nil {
			c.Max("max_readrune_calls_per_rune_x100", int64(100*cnt.reads/(n+1)))
			if cnt.reads > 4*len(cs.Src)+64 {
				c.Violation("work-bound", fmt.Sprintf("%q", cs.Src), fmt.Sprintf("<= %d ReadRune calls", 4*len(cs.Src)+64), cnt.reads, "")
			}
		}
		if subs := mon.Substs.Load() - s0; subs > int64(64*(len(cs.Src)+len(cs.Aliases)+1)) {
			c.Violation("work-bound", fmt.Sprintf("%q aliases=%v", cs.Src, cs.Aliases), "bounded alias substitutions", subs, "")
		} else if subs > 0 {
			c.Count("alias-substitutions", int(subs))
		}
	}
	if cs.AllKind {
		// the single-command entry point, and sources of a type the package does not know
		cmd, _, err := parser.ParseCommand("c01", string(cs.Src))
		c.Eval(1)
		if cmd == nil && err == nil && strings.TrimSpace(string(cs.Src)) != "" && !strings.HasPrefix(strings.TrimSpace(string(cs.Src)), "#") && !strings.HasPrefix(strings.TrimLeft(string(cs.Src), " \t"), "\n") && !strings.HasPrefix(strings.TrimLeft(string(cs.Src), " \t"), "\\\n") {
			c.Count("note/ParseCommand-nil-nil-on-non-blank-source", 1)
		}
		for _, bad := range []any{nil, 42, struct{}{}, []rune(string(cs.Src))} {
			cmds, _, err := parser.ParseCommands(env, "c01", bad)
			c.Eval(1)
			if err == nil {
				c.Violation("invalid-source-accepted", fmt.Sprintf("%T", bad), "a non-nil error", fmt.Sprintf("nil error, %d commands", len(cmds)), "")
			}
		}
		c.Count("source-kind/unsupported-type", 4)
		c01Quiesce(c)
	}
	if c.Index()%20011 == 0 {
		c.Sample(map[string]any{"source": string(cs.Src), "aliases": cs.Aliases, "kind": cs.Kind})
	}
}

// errClass strips the variable parts of an error message.
func errClass(msg string) string {
	return msg
}

func c01Aliases(r *rand.Rand, words []string) map[string]string {
	m := map[string]string{}
	n := 1 + r.IntN(4)
	names := append([]string{"a", "b", "ls", "x"}, words...)
	vals := []string{"a", "b", "a b", "b ", "a ", "ls -l", "x; a", "if", "then", "fi", "{", "}", "(", ")", "a\n", "a\nb", "b=1", "<f", "x |", "&&", "for", "while a; do", "'", "$(", "a #c", "", " ", "\\", "b $(a ; b)", "a `a | b`", "x $(b) y", "b;a|x", "a\n$(x ; ls)", "b $((1+2)) ${x:-$(a;b)}"}
	for i := 0; i < n; i++ {
		k := pick(r, names)
		v := pick(r, vals)
		switch r.IntN(5) {
		case 0:
			v = k // self reference
		case 1:
			v = pick(r, names) + " " // chain with trailing blank
		case 2:
			v = pick(r, names)
		}
		m[k] = v
	}
	return m
}

func c01Mutate(r *rand.Rand, b []byte) []byte {
	out := append([]byte(nil), b...)
	frag := []string{"'", `"`, `\`, "$", "${", "$(", "`", "$((", "))", ")", "(", "}", "{", ";;", "<<", "<<-E", "\n", "#", "\xff", "\xf0\x28", "\x00", "�", "fi", "done", "esac", "then", "do", "in", "|", "&&", ";"}
	for k := 1 + r.IntN(3); k > 0; k-- {
		if len(out) == 0 {
			out = []byte(pick(r, frag))
			continue
		}
		i := r.IntN(len(out))
		switch r.IntN(4) {
		case 0:
			out = append(out[:i], out[i+1:]...)
		case 1:
			out = append(out[:i], append([]byte{out[i]}, out[i:]...)...)
		case 2:
			j := r.IntN(len(out))
			out[i], out[j] = out[j], out[i]
		default:
			out = append(out[:i], append([]byte(pick(r, frag)), out[i:]...)...)
		}
	}
	return out
}

func c01Gen(c *core.Ctx) {
	// 1. exhaustive token strings
	ntok := c.Pick(3, 3)
	c01TokenStrings(ntok, func(s string) {
		core.Do(c, c01Case{Src: []byte(s), AllKind: len(s) <= 6, Kind: "token-string"}, c01Exec)
	})
	if !core.Quick(c) {
		// length 4, blank-joined, sampled 1 in 8 by index (the full 7.3e6 x 2 settings exceed the budget)
		i := 0
		n := len(c01Tokens)
		for a := 0; a < n; a++ {
			for b := 0; b < n; b++ {
				for d := 0; d < n; d++ {
					for e := 0; e < n; e++ {
						i++
						if i%8 != int(c.Seed%8) {
							continue
						}
						core.Do(c, c01Case{Src: []byte(c01Tokens[a] + " " + c01Tokens[b] + " " + c01Tokens[d] + " " + c01Tokens[e]), Kind: "token-string-4"}, c01Exec)
					}
				}
			}
		}
	}
	// 1b. transient read failures: every string of <=5 tokens of a small alphabet around
	// command substitutions and operator look-aheads, failure at every position
	flakyAlpha := []string{"$(", "a", "&", ";", "|", "(", "\n"}
	if !core.Quick(c) {
		flakyAlpha = append(flakyAlpha, "`", "<", ")")
	}
	enumStrings(flakyAlpha, 1, 5, func(_ string, idx []int) {
		parts := make([]string, len(idx))
		for i, k := range idx {
			parts[i] = flakyAlpha[k]
		}
		core.Do(c, c01Case{Src: []byte(strings.Join(parts, " ")), Flaky: true, Kind: "flaky-token-string"}, c01Exec)
	})
	// 1c. lasting read failures (a closed file, a broken connection) from every position of
	// sources whose scanning loops are not reached by the token strings above: comments in
	// every position, here-document bodies, quotes, expansions, arithmetic, continuations
	for _, src := range []string{"echo a # c\n", "echo a #", "echo $(b # c\n) d\n", "( a; b ) # c\nd\n", "a | # c\n b\n", "# c\n# d\necho\n", "a && # c\n# d\n b\n",
		"case x in # c\n a) # d\n b ;; # e\nesac # f\n", "for i in a b # c\ndo # d\n :; done\n", "if a # c\nthen b # d\nfi\n", "f() # c\n{ a; } # d\n",
		"cat <<E # c\nx $y\nE\n", "cat <<-'E' <<F\n\tx\n\tE\n$(a # c\n)\nF\n", "echo \"a $(b # c\n) `d` ${e:-f # g} $((1 # 2\n))\" 'h\ni' \\\nj\n",
		"echo `a # c\n` b\n", "x=${y:-$(z # c\n)} w\n", "(( 1 + # c\n 2 ))\n", "echo ~a/b:~c # d\n", "a=1 b=2 >f 2>&1 c # d\n", "! { a; } # c\n", "a;; # c\n", "a\\\n # c\n"} {
		core.Do(c, c01Case{Src: []byte(src), Persist: true, Kind: "persistent-read-fault"}, c01Exec)
	}
	// 1d. here-documents read by nested lexers, under forced schedules
	for _, src := range []string{"echo $(cat <<E\nx\nE\n)\n", "a `cat <<E\nx\nE\n` b\n", "echo $(a <<E | b\nx\nE\n)\n", "x=$(cat <<-E\n\tE\n)\n", "echo \"$(cat <<E\n$(cat <<F\ny\nF\n)\nE\n)\"\n", "cat <<E\nx\nE\n", "{ cat <<E\nx\nE\n}\n", "echo $(cat <<E", "echo $(cat <<E\nx\n"} {
		core.Do(c, c01Case{Src: []byte(src), Forced: true, Kind: "forced-schedules"}, c01Exec)
	}
	for i := 0; i < c.Pick(150, 5000); i++ {
		r := c.Rand("forced", int64(i))
		o := gen.Options{Budget: 1 + r.IntN(4), Heredocs: true, HDBias: true, MaxHD: 1 + r.IntN(2), LeadHD: true, NoNested: i%2 == 1, InParen: true}
		inner := gen.New(r, o).Program().List
		inner.Top = false
		inner.Items[len(inner.Items)-1].NL = true
		k := "cmdsub"
		if o.NoNested {
			k = "bq"
		}
		outer := gen.Simple("echo")
		outer.Post = append(outer.Post, gen.Item{W: gen.W(gen.Part{K: k, List: inner})})
		p := &gen.Program{List: &gen.CList{Top: true, Items: []*gen.AndOr{gen.AO(gen.Pipe(outer))}}}
		core.Do(c, c01Case{Src: []byte(gen.Join(gen.Tokens(p, true), nil).Text), Forced: true, Kind: "forced-schedules"}, c01Exec)
	}
	// 1c. scaling families: work grows about linearly
	var shapes []string
	for k := range c01Shapes {
		shapes = append(shapes, k)
	}
	sort.Strings(shapes)
	for _, k := range shapes {
		core.Do(c, c01Case{Shape: k, Kind: "scaling"}, c01Exec)
	}
	// 2. exhaustive character strings
	enumStrings(c01Chars, 0, c.Pick(4, 5), func(s string, _ []int) {
		core.Do(c, c01Case{Src: []byte(s), Kind: "char-string"}, c01Exec)
	})
	// 3. every prefix of generated programs; 4. mutations; 5. alias tables
	nprog := c.Pick(2000, 50000)
	nmut := c.Pick(20, 200)
	for i := 0; i < nprog; i++ {
		r := c.Rand("prog", int64(i))
		p := genProgram(r, i)
		pol, _ := layoutPolicy(r, i%2 == 0)
		text := gen.Join(gen.Tokens(p, true), pol).Text
		b := []byte(text)
		for k := 0; k <= len(b); k++ {
			core.Do(c, c01Case{Src: b[:k], Kind: "prefix"}, c01Exec)
		}
		for k := 0; k < nmut; k++ {
			if c.Mine() {
				core.Run(c, c01Case{Src: c01Mutate(r, b), Kind: "mutation"}, c01Exec)
			} else {
				c01Mutate(r, b) // keep the PRNG stream aligned across shards
			}
		}
		// alias tables whose names are words of the program
		var words []string
		for _, t := range gen.Tokens(p, true) {
			if t.Kind == gen.TWord && len(t.Text) < 8 && !strings.ContainsAny(t.Text, "$`'\"\\") {
				words = append(words, t.Text)
			}
		}
		for k := 0; k < 4; k++ {
			al := c01Aliases(r, words)
			core.Do(c, c01Case{Src: b, Aliases: al, Kind: "aliases"}, c01Exec)
		}
	}
	// alias tables over the short token strings
	i := 0
	c01TokenStrings(2, func(s string) {
		i++
		r := c.Rand("alias-tok", int64(i))
		al := c01Aliases(r, nil)
		core.Do(c, c01Case{Src: []byte(s), Aliases: al, Kind: "aliases-token-string"}, c01Exec)
	})
	// all cycles over <=3 names, with and without trailing blanks
	names := []string{"a", "b", "c"}
	for mask := 0; mask < 27*8; mask++ {
		m := map[string]string{}
		x := mask / 8
		for j, n := range names {
			t := names[(x/pow3(j))%3]
			if mask&(1<<j) != 0 {
				t += " "
			}
			m[n] = t
		}
		for _, s := range []string{"a", "a b c", "a; b | c", "if a; then b; fi", "a\nb"} {
			core.Do(c, c01Case{Src: []byte(s), Aliases: m, AllKind: true, Kind: "alias-cycles"}, c01Exec)
		}
	}
}

func pow3(n int) int {
	r := 1
	for ; n > 0; n-- {
		r *= 3
	}
	return r
}

func init() {
	core.Register(&core.Engine{
		ID:          "C01",
		Level:       "exploration",
		Technique:   "runtime monitoring: crash / hang / work-bound monitor over isolated worker processes (journalled cases, solo re-run attribution, goroutine accounting through the verif hooks), every case list executed under GODEBUG=panicnil=0 and panicnil=1",
		Rule:        "(also: 22 sources with comments in every kind of position, here-document bodies, quotes, expansions and continuations, delivered through an io.Reader / io.RuneScanner that fails for good from position k, for every k) a case is (source bytes, alias table) delivered as string, []byte, io.Reader (1 byte per Read), a custom io.RuneScanner, and an io.Reader / io.RuneScanner that fails once with a non-EOF error at some position and then goes on (all four plain kinds for short sources, the six rotated otherwise); workloads: every string of <=5 tokens over a 7-token (thorough 10-token) alphabet around command substitutions and operator look-aheads with the transient failure at every position, every string of <=3 tokens of a 52-token alphabet joined by a blank and by nothing (thorough: plus 1/8 of all 4-token strings), every string of <=4 (thorough <=5) characters over 21 significant characters, every byte prefix of 2000 (thorough 50000) generated programs, 20 (thorough 200) byte mutations of each (deletions, duplications, swaps, inserted fragments incl. invalid UTF-8 and NUL), 4 random alias tables per program (names = words of the program; values with operators, reserved words, newlines, trailing blanks, self reference, chains), alias tables over all 2-token strings, all 216 cyclic alias tables over 3 names, and 20 scaling families run at n=1500 and 4n (bytes allocated must grow by less than x7). distinct_nontrivial = distinct syntax-error messages observed (a proxy for distinct lexer/parser paths).",
		Assumptions: []string{"'bounded time' is observed as: the call returns before a 10 s per-case watchdog (cases take microseconds), ReadRune calls <= 4*len+64, alias substitutions <= 64*(len+|table|+1), allocation growth of the scaling families < x7 for x4 input"},
		GoDebug:     []string{"panicnil=0", "panicnil=1"},
		Gen:         c01Gen,
		Replay:      func(c *core.Ctx, raw []byte) { core.ReplayOne(c, raw, c01Exec) },
		Exhaustive:  func(string) bool { return true },
		Finish: func(m *core.Merged) string {
			for _, k := range []string{"source-kind/0", "source-kind/1", "source-kind/2", "source-kind/3", "source-kind/4", "source-kind/5", "result/error", "result/commands", "alias-substitutions"} {
				if m.Counters[k] < 1000 {
					return "too few observations of " + k
				}
			}
			return ""
		},
	})
}
