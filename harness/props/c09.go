package props

import (
	"fmt"
	"math/rand/v2"
	"strings"

	"verif/core"
	"verif/gen"
	"verif/skel"
)

// C09 — layout is inert: blanks, comments, line continuations, newline vs ";"
// and blank lines do not change the parsed program; added comments are returned.

type c09Case struct {
	Prog *gen.Program `json:"prog"`
	Seed uint64       `json:"seed"`
	Kind string       `json:"kind"`
	Wrap bool         `json:"wrap,omitempty"` // also judged inside $( ), "$( )" and backquotes
}

// c09Hostile is a comment text full of characters that mean something outside a comment.
const c09Hostile = " `b` 'q \"d $( ) } ;; <<E fi ${"

type c09Wrapper struct {
	name, pre, post string
	bq              bool
}

var c09Wrappers = []c09Wrapper{
	{"cmdsubst", "echo $(", ") tail\n", false},
	{"quoted-cmdsubst", "x=\"$(", ")\"\n", false},
	{"backquotes", "echo `", "` tail\n", true},
}

type layoutEdit struct {
	name    string
	gap     int
	text    string
	comment []string
}

// c09Edits lists every single-boundary layout transformation applicable to the
// canonical rendering.
func c09Edits(toks []gen.Tok) []layoutEdit {
	var out []layoutEdit
	for i, a := range toks {
		if a.Glue {
			continue
		}
		last := i == len(toks)-1
		var b gen.Tok
		if !last {
			b = toks[i+1]
		}
		aNL := a.Kind == gen.TNewline || a.Kind == gen.THereBody
		bNL := !last && (b.Kind == gen.TNewline || b.Kind == gen.THereBody)
		req := !last && gen.NeedBlank(a, b)
		switch {
		case last:
			if !aNL {
				out = append(out, layoutEdit{"trailing-blanks-at-eof", i, "  \t", nil},
					layoutEdit{"comment-at-eof", i, " # last", []string{" last"}})
			}
		case !last && b.Kind == gen.THereBody:
			// the here-document body starts right after its newline: nothing may be inserted
		case aNL:
			out = append(out, layoutEdit{"indent-line", i, "\t  ", nil})
			if a.LB && !a.HDPend {
				out = append(out, layoutEdit{"blank-line", i, "\n", nil},
					layoutEdit{"blank-lines-with-blanks", i, "  \n\t\n", nil},
					layoutEdit{"comment-line", i, "# full line\n", []string{" full line"}},
					layoutEdit{"comment-line-ending-in-backslash", i, "# not a continuation \\\n", []string{" not a continuation \\"}},
					layoutEdit{"indented-comment-line", i, "   #x\n  ", []string{"x"}},
					layoutEdit{"hostile-comment-line", i, "#" + c09Hostile + "\n", []string{c09Hostile}})
			}
		case bNL:
			out = append(out, layoutEdit{"blanks-before-newline", i, " \t ", nil},
				layoutEdit{"comment-before-newline", i, " # c " + fmt.Sprint(i), []string{" c " + fmt.Sprint(i)}},
				layoutEdit{"empty-comment-before-newline", i, " #", []string{""}},
				layoutEdit{"hostile-comment-before-newline", i, " #" + c09Hostile, []string{c09Hostile}},
				layoutEdit{"comment-ending-in-backslash-before-newline", i, " # c\\", []string{" c\\"}},
				layoutEdit{"continuation-before-newline", i, " \\\n", nil})
		default:
			out = append(out, layoutEdit{"extra-blanks", i, "    ", nil},
				layoutEdit{"tab", i, "\t", nil},
				layoutEdit{"mixed-blanks", i, " \t \t", nil},
				layoutEdit{"continuation", i, " \\\n", nil},
				layoutEdit{"continuation-indented", i, " \\\n    ", nil})
			if !req {
				out = append(out, layoutEdit{"no-blank", i, "", nil}, layoutEdit{"bare-continuation", i, "\\\n", nil})
			}
			if a.LB && !a.HDPend {
				out = append(out, layoutEdit{"newline-at-linebreak", i, "\n", nil},
					layoutEdit{"blank-lines-at-linebreak", i, " \n\n  ", nil},
					layoutEdit{"comment-at-linebreak", i, " # lb\n", []string{" lb"}},
					layoutEdit{"comment-ending-in-backslash-at-linebreak", i, " # lb \\\n", []string{" lb \\"}},
					layoutEdit{"hostile-comment-at-linebreak", i, " #" + c09Hostile + "\n", []string{c09Hostile}},
					layoutEdit{"comment-lines-at-linebreak", i, "\n# one\n\n  # two\n", []string{" one", " two"}})
			}
		}
	}
	return out
}

func applyEdits(toks []gen.Tok, edits ...layoutEdit) *gen.Rendered {
	m := map[int]string{}
	for _, e := range edits {
		m[e.gap] = e.text
	}
	return gen.Join(toks, func(g gen.Gap) string {
		if s, ok := m[g.I]; ok {
			return s
		}
		return gen.Canon(g)
	})
}

// aoSites collects the and-or lists of all compound lists, and the for clauses.
func aoSites(p *gen.Program) (aos []*gen.AndOr, fors []*gen.Cmd) {
	var clist func(cl *gen.CList)
	var cmd func(c *gen.Cmd)
	var word func(w *gen.Word)
	var parts func(ps []gen.Part)
	parts = func(ps []gen.Part) {
		for _, p := range ps {
			parts(p.Sub)
			if p.W != nil {
				word(p.W)
			}
			// (lists inside command substitutions are rendered canonically and are not layout sites)
		}
	}
	word = func(w *gen.Word) {
		if w != nil {
			parts(w.Parts)
		}
	}
	cmd = func(c *gen.Cmd) {
		if c == nil {
			return
		}
		for _, cl := range []*gen.CList{c.Body, c.Cond, c.Else} {
			if cl != nil {
				clist(cl)
			}
		}
		for _, e := range c.Elifs {
			clist(e.Cond)
			clist(e.Body)
		}
		for _, it := range c.Cases {
			if it.Body != nil {
				clist(it.Body)
			}
		}
		if c.K == "for" {
			fors = append(fors, c)
		}
		cmd(c.FBody)
	}
	clist = func(cl *gen.CList) {
		for _, ao := range cl.Items {
			if !cl.Top {
				aos = append(aos, ao)
			}
			ps := []*gen.Pipeline{ao.First}
			for _, r := range ao.Rest {
				ps = append(ps, r.P)
			}
			for _, p := range ps {
				for _, c := range p.Cmds {
					cmd(c)
				}
			}
		}
	}
	clist(p.List)
	return
}

func c09Exec(c *core.Ctx, cs c09Case) {
	toks := gen.Tokens(cs.Prog, true)
	base := gen.Join(toks, nil)
	cmds, comments, err := parseAll("c09", base.Text)
	if err != nil || skel.Cmds(cmds, skel.Strict) != gen.Expect(cs.Prog) || len(comments) != 0 {
		c.Skip("untransformed program not accepted as expected (C02's business)")
		return
	}
	want := skel.Cmds(cmds, skel.Normalised)
	judge := func(name, text string, wantComments []string) {
		cmds2, com2, err2 := parseAll("c09", text)
		c.Eval(1)
		c.Count("transformation/"+name, 1)
		key := name + ": " + q(text)
		switch {
		case err2 != nil:
			c.Violation("rejected", key, "accepted like "+q(base.Text), err2.Error(), "")
		case skel.Cmds(cmds2, skel.Normalised) != want:
			c.Violation("meaning-changed", key, want, skel.Cmds(cmds2, skel.Normalised), "untransformed: "+q(base.Text))
		case !sameStrings(commentTextsOf(com2), append([]string{}, wantComments...)):
			c.Violation("comments", key, fmt.Sprintf("%q", wantComments), fmt.Sprintf("%q", commentTextsOf(com2)), "")
		}
	}
	edits := c09Edits(toks)
	for _, e := range edits {
		judge(e.name, applyEdits(toks, e).Text, e.comment)
	}
	// the same program and the same transformations inside a command substitution: the
	// reference is the untransformed wrapped text.  Inside backquotes a backquote within
	// a comment is undefined (XCU 2.6.3) and backslashes are processed before the text is
	// parsed, so programs and transformations that hold either are left out there.
	if cs.Wrap {
		for _, w := range c09Wrappers {
			if w.bq && strings.ContainsAny(base.Text, "`\\") {
				continue
			}
			if strings.HasPrefix(base.Text, "(") {
				w.pre += " " // "$((" would start an arithmetic expansion
			}
			refCmds, refCom, refErr := parseAll("c09", w.pre+base.Text+w.post)
			if refErr != nil || len(refCom) != 0 {
				c.Count("wrap-skipped/"+w.name, 1)
				continue
			}
			wantW := skel.Cmds(refCmds, skel.Normalised)
			c.Count("wrapped/"+w.name, 1)
			for _, e := range edits {
				if w.bq && strings.ContainsAny(e.text, "`\\") {
					continue
				}
				text := w.pre + applyEdits(toks, e).Text + w.post
				cmds2, com2, err2 := parseAll("c09", text)
				c.Eval(1)
				c.Count("transformation-in-"+w.name+"/"+e.name, 1)
				key := e.name + " in " + w.name + ": " + q(text)
				switch {
				case err2 != nil:
					c.Violation("rejected", key, "accepted like "+q(w.pre+base.Text+w.post), err2.Error(), "")
				case skel.Cmds(cmds2, skel.Normalised) != wantW:
					c.Violation("meaning-changed", key, wantW, skel.Cmds(cmds2, skel.Normalised), "untransformed: "+q(w.pre+base.Text+w.post))
				case !sameStrings(commentTextsOf(com2), append([]string{}, e.comment...)):
					c.Violation("comments", key, fmt.Sprintf("%q", e.comment), fmt.Sprintf("%q", commentTextsOf(com2)), "")
				}
			}
		}
	}
	// pairs of transformations at two boundaries
	r := randFor(cs.Seed, 99)
	for k := 0; k < 12 && len(edits) > 1; k++ {
		a, b := edits[r.IntN(len(edits))], edits[r.IntN(len(edits))]
		if a.gap == b.gap {
			continue
		}
		if a.gap > b.gap {
			a, b = b, a
		}
		judge("pair", applyEdits(toks, a, b).Text, append(append([]string{}, a.comment...), b.comment...))
	}
	// without the final newline
	if t2 := gen.Tokens(cs.Prog, false); len(t2) < len(toks) {
		judge("no-final-newline", gen.Join(t2, nil).Text, nil)
		for _, e := range c09Edits(t2) {
			if e.gap == len(t2)-1 {
				judge(e.name, applyEdits(t2, e).Text, e.comment)
			}
		}
	}
	// separator swaps (tree level): ";" <-> newline, ";" -> ";" newline, for-clause separator
	aos, fors := aoSites(cs.Prog)
	rerender := func(name string) {
		judge(name, gen.Join(gen.Tokens(cs.Prog, true), nil).Text, nil)
	}
	for _, ao := range aos {
		sep, nl := ao.Sep, ao.NL
		switch {
		case sep == ";" && !nl:
			ao.Sep, ao.NL = "", true
			rerender("newline-for-semicolon")
			ao.Sep, ao.NL = ";", true
			rerender("semicolon-then-newline")
		case sep == "" && nl:
			ao.Sep, ao.NL = ";", false
			rerender("semicolon-for-newline")
		case sep == "&" && !nl:
			ao.NL = true
			rerender("ampersand-then-newline")
		case sep != "" && nl:
			ao.NL = false
			rerender("separator-without-newline")
		}
		ao.Sep, ao.NL = sep, nl
	}
	for _, f := range fors {
		old := f.ForSep
		switch old {
		case ";":
			f.ForSep = "\n"
			rerender("for-newline-for-semicolon")
		case "\n":
			f.ForSep = ";"
			rerender("for-semicolon-for-newline")
		}
		f.ForSep = old
	}
	c.Distinct(want)
	if c.Index()%301 == 0 {
		c.Sample(map[string]any{"source": base.Text, "single-boundary transformations": len(edits), "separator sites": len(aos) + len(fors)})
	}
}

func c09Gen(c *core.Ctx) {
	n := c.Pick(5000, 150000)
	for i := 0; i < n; i++ {
		if !c.Mine() {
			continue
		}
		r := c.Rand("prog", int64(i))
		o := gen.Options{Budget: 3 + r.IntN(10), Heredocs: i%3 == 0, Flat: i%4 == 1, LeadHD: i%5 == 2, InParen: i%4 == 3}
		p := gen.New(r, o).Program()
		core.Run(c, c09Case{Prog: p, Seed: uint64(c.Seed)*31337 + uint64(i), Kind: "generated", Wrap: i%4 == 3}, c09Exec)
	}
	_ = rand.Int
}

func init() {
	core.Register(&core.Engine{
		ID:          "C09",
		Level:       "exploration",
		Technique:   "runtime monitoring: metamorphic oracle — the untransformed parse of a generator-confirmed program is the reference; every applicable single-boundary layout transformation (and random pairs, and every separator swap) is applied and the normalised skeleton and the comment list are compared",
		Rule:        "a case is a generated program; transformations: at every token boundary {extra blanks, tab, mixed blanks, no blank where none is required, backslash-newline (plain / indented / bare)}, before every newline {blanks, comment, empty comment, continuation}, at every boundary where the grammar has `linebreak` {newline, blank lines, comment, comment lines}, at line starts {indentation, blank/comment lines}, at end of input {blanks, comment without newline}, no final newline; at every and-or list of a compound list {';' <-> newline, ';'+newline, '&'+newline}, for-clause ';' <-> newline; plus 12 random pairs per program; comment texts include a hostile one made of backquotes, quotes, $(, ), }, ;;, <<E, fi and ${; every fourth program is generated for a parenthesised context and all its single-boundary transformations are repeated with the program inside echo $( ), x=\"$( )\" and backquotes (reference: the untransformed wrapped text; inside backquotes programs and transformations holding a backquote or backslash are left out: XCU 2.6.3 leaves a backquote inside a comment there undefined). distinct_nontrivial = distinct programs; counters transformation/<kind> give the applied transformations.",
		Assumptions: []string{"reference = the untransformed parse, itself confirmed against the generator's expectation (C02)", "nothing is inserted between a newline and a pending here-document body"},
		Gen:         c09Gen,
		Replay:      func(c *core.Ctx, raw []byte) { core.ReplayOne(c, raw, c09Exec) },
		Finish: func(m *core.Merged) string {
			for _, k := range []string{"extra-blanks", "continuation", "comment-before-newline", "newline-at-linebreak", "comment-line", "newline-for-semicolon", "semicolon-for-newline", "comment-at-eof", "for-newline-for-semicolon"} {
				if m.Counters["transformation/"+k] < 100 {
					return "too few transformations of kind " + k
				}
			}
			return ""
		},
	})
}
