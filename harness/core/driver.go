package core

import (
	"bufio"
	"crypto/sha1"
	"encoding/binary"
	"encoding/json"
	"fmt"
	"io"
	"os"
	"os/exec"
	"path/filepath"
	"runtime"
	"sort"
	"strconv"
	"strings"
	"sync"
	"time"
)

// Merged is the driver-side sum of all worker results.
type Merged struct {
	Evals      int64
	Cases      int64
	Counters   map[string]int64
	Skipped    map[string]int64
	Samples    []any
	Violations []Violation
	NViol      int64
	Inconcl    []string
	Distinct   int64
	MaxCaseNs  int64
	Crashes    int
	Aborted    int
	Tier       string
}

func (m *Merged) add(r *Result) {
	m.Evals += r.Evals
	m.Cases += r.Cases
	for k, v := range r.Counters {
		if strings.HasPrefix(k, "max_") {
			if v > m.Counters[k] {
				m.Counters[k] = v
			}
		} else {
			m.Counters[k] += v
		}
	}
	for k, v := range r.Skipped {
		m.Skipped[k] += v
	}
	if len(m.Samples) < 12 {
		for _, s := range r.Samples {
			if len(m.Samples) < 12 {
				m.Samples = append(m.Samples, s)
			}
		}
	}
	m.Violations = append(m.Violations, r.Violations...)
	m.NViol += r.NViolations
	m.Inconcl = append(m.Inconcl, r.Inconcl...)
	if r.MaxCaseNs > m.MaxCaseNs {
		m.MaxCaseNs = r.MaxCaseNs
	}
}

type knownFinding struct {
	Property string `json:"property"`
	Status   string `json:"status"`
	Input    string `json:"input"`
	What     string `json:"what"`
	Commit   string `json:"commit,omitempty"`
}

func loadKnown(verifDir string) []knownFinding {
	f, err := os.Open(filepath.Join(verifDir, "known_findings.jsonl"))
	if err != nil {
		return nil
	}
	defer f.Close()
	var out []knownFinding
	sc := bufio.NewScanner(f)
	sc.Buffer(make([]byte, 1<<20), 1<<20)
	for sc.Scan() {
		line := strings.TrimSpace(sc.Text())
		if line == "" || strings.HasPrefix(line, "#") || strings.HasPrefix(line, "fixed:") {
			continue
		}
		var k knownFinding
		if json.Unmarshal([]byte(line), &k) == nil && k.Status == "open" {
			out = append(out, k)
		}
	}
	return out
}

type shardJob struct {
	godebug string
	shard   int
}

// DriverMain runs a whole check; returns the process exit code.
func DriverMain(prop, tier, verifDir string) int {
	e := Lookup(prop)
	if e == nil {
		fmt.Fprintln(os.Stderr, "unknown property", prop)
		return 2
	}
	seed := int64(1)
	if s := os.Getenv("VERIF_SEED"); s != "" {
		if v, err := strconv.ParseInt(s, 10, 64); err == nil {
			seed = v
		}
	}
	t0 := time.Now()
	self, _ := os.Executable()
	bin := self
	if e.Race {
		bin = os.Getenv("VERIF_BIN_RACE")
		if bin == "" {
			bin = filepath.Join(filepath.Dir(self), "verif-race")
		}
	}
	runDir, err := os.MkdirTemp("", "verif-"+prop+"-")
	if err != nil {
		fmt.Fprintln(os.Stderr, err)
		return 2
	}
	if os.Getenv("VERIF_KEEP") == "" {
		defer os.RemoveAll(runDir)
	}
	runDirEnv = runDir
	nshards := e.Shards
	if nshards == 0 {
		nshards = runtime.NumCPU()
	}
	if s := os.Getenv("VERIF_SHARDS"); s != "" {
		if v, err := strconv.Atoi(s); err == nil && v > 0 {
			nshards = v
		}
	}
	godebugs := e.GoDebug
	if len(godebugs) == 0 {
		godebugs = []string{"panicnil=1"}
	}
	shardLimit := 25 * time.Minute
	if tier == "thorough" {
		shardLimit = 5 * time.Hour
	}

	m := &Merged{Counters: map[string]int64{}, Skipped: map[string]int64{}, Tier: tier}
	var mu sync.Mutex
	var hashFiles []string
	sem := make(chan struct{}, runtime.NumCPU())
	var wg sync.WaitGroup
	for _, gd := range godebugs {
		for s := 0; s < nshards; s++ {
			wg.Add(1)
			go func(gd string, s int) {
				defer wg.Done()
				sem <- struct{}{}
				defer func() { <-sem }()
				tag := fmt.Sprintf("%s-%d", strings.ReplaceAll(strings.ReplaceAll(gd, "=", ""), " ", "_"), s)
				out := filepath.Join(runDir, "res-"+tag+".json")
				slot := filepath.Join(runDir, "slot-"+tag)
				var skip []int64
				for attempt := 0; ; attempt++ {
					errf := filepath.Join(runDir, fmt.Sprintf("err-%s-%d.txt", tag, attempt))
					args := []string{"worker", "-prop", prop, "-tier", tier, "-seed", fmt.Sprint(seed),
						"-shard", fmt.Sprint(s), "-nshards", fmt.Sprint(nshards), "-out", out, "-slot", slot}
					if len(skip) > 0 {
						var ss []string
						for _, i := range skip {
							ss = append(ss, fmt.Sprint(i))
						}
						args = append(args, "-skip", strings.Join(ss, ","))
					}
					os.Remove(out)
					rc, timedOut := runProc(bin, args, gd, errf, shardLimit)
					if rc == 0 && !timedOut {
						if r := readResult(out); r != nil && r.Done {
							mu.Lock()
							m.add(r)
							hashFiles = append(hashFiles, out+".hashes")
							mu.Unlock()
							return
						}
					}
					if timedOut {
						mu.Lock()
						m.Inconcl = append(m.Inconcl, fmt.Sprintf("shard %s exceeded the %v shard limit and was killed", tag, shardLimit))
						m.Aborted++
						mu.Unlock()
						return
					}
					// the worker died: attribute
					mu.Lock()
					m.Crashes++
					mu.Unlock()
					entries := ReadSlot(slot)
					tail := tailFile(errf, 6000)
					v, idx := attribute(bin, prop, tier, seed, gd, runDir, tag, attempt, entries, rc, tail)
					mu.Lock()
					if v != nil {
						m.Violations = append(m.Violations, *v)
						m.NViol++
					} else {
						m.Inconcl = append(m.Inconcl, fmt.Sprintf("worker %s died (rc=%d) and no journalled case reproduced it solo; stderr tail: %s", tag, rc, firstLine(tail)))
					}
					mu.Unlock()
					if idx < 0 || attempt >= 6 {
						mu.Lock()
						m.Aborted++
						m.Inconcl = append(m.Inconcl, fmt.Sprintf("shard %s abandoned after %d crashes", tag, attempt+1))
						mu.Unlock()
						return
					}
					skip = append(skip, idx)
				}
			}(gd, s)
		}
	}
	wg.Wait()
	m.Distinct = mergeHashes(hashFiles)

	// verdict
	known := loadKnown(verifDir)
	if o := os.Getenv("VERIF_OUT"); o != "" {
		// runs against another go.sh tree (mutant self-tests) keep their evidence and replay files apart
		verifDir = o
	}
	os.MkdirAll(filepath.Join(verifDir, "replay"), 0o755)
	seen := map[string]bool{}
	var lines []string
	knownHit := map[int]bool{}
	nNew := 0
	for _, v := range m.Violations {
		matched := false
		for i, k := range known {
			if k.Property == prop && k.Input == v.Key {
				knownHit[i] = true
				matched = true
			}
		}
		if matched {
			continue
		}
		dk := v.Class + "\x00" + v.Key
		if seen[dk] {
			continue
		}
		seen[dk] = true
		nNew++
		if len(lines) < 20 {
			b, _ := json.MarshalIndent(v, "", " ")
			h := sha1.Sum(b)
			p := filepath.Join(verifDir, "replay", fmt.Sprintf("%s-%x.json", prop, h[:6]))
			os.WriteFile(p, b, 0o644)
			lines = append(lines, fmt.Sprintf("VIOLATION property=%s replay=%s", prop, p))
			if len(lines) <= 8 {
				fmt.Fprintf(os.Stderr, "  [%s] %s: key=%.160q expected=%.120s observed=%.120s\n", prop, v.Class, v.Key, trunc(v.Expected), trunc(v.Observed))
			}
		}
	}
	for i, k := range known {
		if knownHit[i] {
			fmt.Printf("KNOWN-FINDING: property=%s %s\n", prop, k.What)
		}
	}
	inconcl := ""
	if e.Finish != nil && nNew == 0 {
		inconcl = e.Finish(m)
	}
	if m.Aborted > 0 && nNew == 0 && inconcl == "" {
		inconcl = fmt.Sprintf("%d shard(s) did not complete", m.Aborted)
	}
	if n := len(m.Inconcl); n > 0 && nNew == 0 && inconcl == "" {
		if int64(n)*100 > m.Cases || m.Crashes > 0 {
			inconcl = fmt.Sprintf("%d inconclusive observations: %s", n, m.Inconcl[0])
		}
	}

	if os.Getenv("VERIF_DUMP") != "" {
		b, _ := json.MarshalIndent(m.Violations, "", " ")
		os.WriteFile(os.Getenv("VERIF_DUMP"), b, 0o644)
	}
	// evidence
	cov := map[string]any{
		"evaluations":         m.Evals,
		"distinct_nontrivial": m.Distinct,
		"rule":                e.Rule,
		"samples":             m.Samples,
		"cases":               m.Cases,
		"counters":            m.Counters,
		"skipped":             m.Skipped,
		"worker_processes":    len(godebugs) * nshards,
		"godebug_settings":    godebugs,
		"worker_crashes":      m.Crashes,
		"max_case_latency_ms": float64(m.MaxCaseNs) / 1e6,
		"inconclusive":        len(m.Inconcl),
		"known_findings_hit":  len(knownHit),
	}
	if len(m.Inconcl) > 0 {
		n := len(m.Inconcl)
		if n > 5 {
			n = 5
		}
		cov["inconclusive_examples"] = m.Inconcl[:n]
	}
	if e.Exhaustive != nil && e.Exhaustive(tier) {
		cov["exhaustive"] = true
	}
	if len(m.Samples) == 0 {
		cov["samples"] = []any{"(no sample recorded)"}
	}
	ev := map[string]any{
		"property_id": prop,
		"tier":        tier,
		"seed":        seed,
		"level":       e.Level,
		"coverage":    cov,
		"assumptions": e.Assumptions,
		"wall_s":      time.Since(t0).Seconds(),
		"violations":  nNew,
		"verdict":     "held",
	}
	if nNew > 0 {
		ev["verdict"] = "violated"
	} else if inconcl != "" {
		ev["verdict"] = "inconclusive: " + inconcl
	}
	os.MkdirAll(filepath.Join(verifDir, "evidence"), 0o755)
	b, _ := json.MarshalIndent(ev, "", " ")
	os.WriteFile(filepath.Join(verifDir, "evidence", prop+".json"), append(b, '\n'), 0o644)

	fmt.Printf("%s %s seed=%d: cases=%d evaluations=%d distinct=%d violations=%d (raw %d) known=%d crashes=%d inconclusive=%d wall=%.1fs\n",
		prop, tier, seed, m.Cases, m.Evals, m.Distinct, nNew, m.NViol, len(knownHit), m.Crashes, len(m.Inconcl), time.Since(t0).Seconds())
	for _, l := range lines {
		fmt.Println(l)
	}
	if nNew > 0 {
		return 1
	}
	if inconcl != "" {
		fmt.Printf("INCONCLUSIVE property=%s %s\n", prop, inconcl)
		return 2
	}
	return 0
}

func trunc(v any) string {
	s := fmt.Sprint(v)
	if len(s) > 300 {
		s = s[:300] + "…"
	}
	return s
}

var runDirEnv string

func runProc(bin string, args []string, godebug, errFile string, limit time.Duration) (rc int, timedOut bool) {
	cmd := exec.Command(bin, args...)
	env := []string{}
	for _, kv := range os.Environ() {
		if !strings.HasPrefix(kv, "GODEBUG=") {
			env = append(env, kv)
		}
	}
	// godebug may carry extra environment assignments after the GODEBUG value
	gdf := strings.Fields(godebug)
	env = append(env, "GODEBUG="+gdf[0], "GORACE=halt_on_error=1 exitcode=66")
	env = append(env, gdf[1:]...)
	if runDirEnv != "" {
		env = append(env, "VERIF_RUNDIR="+runDirEnv)
	}
	cmd.Env = env
	ef, err := os.Create(errFile)
	if err != nil {
		return 4, false
	}
	defer ef.Close()
	cmd.Stderr = ef
	cmd.Stdout = ef
	if err := cmd.Start(); err != nil {
		fmt.Fprintln(ef, "start:", err)
		return 4, false
	}
	done := make(chan error, 1)
	go func() { done <- cmd.Wait() }()
	select {
	case err := <-done:
		if err == nil {
			return 0, false
		}
		if ee, ok := err.(*exec.ExitError); ok {
			if ee.ExitCode() >= 0 {
				return ee.ExitCode(), false
			}
			return 128, false // signal
		}
		return 4, false
	case <-time.After(limit):
		cmd.Process.Signal(os.Interrupt)
		cmd.Process.Kill()
		<-done
		return -1, true
	}
}

func readResult(path string) *Result {
	b, err := os.ReadFile(path)
	if err != nil {
		return nil
	}
	var r Result
	if json.Unmarshal(b, &r) != nil {
		return nil
	}
	return &r
}

func tailFile(path string, n int) string {
	b, err := os.ReadFile(path)
	if err != nil {
		return ""
	}
	// keep the head of a panic message: find "panic:" / "fatal error:" / "WATCHDOG"
	s := string(b)
	for _, mark := range []string{"panic:", "fatal error:", "WATCHDOG-DEADLOCK", "WATCHDOG", "WARNING: DATA RACE"} {
		if i := strings.Index(s, mark); i >= 0 {
			s = s[i:]
			break
		}
	}
	if len(s) > n {
		s = s[:n]
	}
	return s
}

// attribute re-runs journalled cases one per process to find the one that
// kills the worker on its own.
func attribute(bin, prop, tier string, seed int64, gd, runDir, tag string, attempt int, entries []SlotEntry, rc int, tail string) (*Violation, int64) {
	if len(entries) == 0 {
		return nil, -1
	}
	if i := strings.Index(tail, "WATCHDOG-DEADLOCK:"); i >= 0 {
		// all go.sh goroutines blocked in two dumps: a dead-lock is a hang whatever its probability
		en := entries[0]
		msg := firstLine(tail[i:])
		key := "deadlock:" + string(en.Raw)
		if len(key) > 400 {
			key = key[:400]
		}
		return &Violation{Property: prop, Key: key, Class: "deadlock", Case: en.Raw,
			Expected: "the call returns", Observed: msg, Detail: tail, GoDebug: gd, Tier: tier, Seed: seed}, en.Idx
	}
	if strings.Contains(tail, "WARNING: DATA RACE") {
		// a race report is evidence on its own (it need not reproduce in a solo run);
		// identity = the go.sh functions on the two stacks, line numbers stripped
		var fns []string
		for _, ln := range strings.Split(tail, "\n") {
			ln = strings.TrimSpace(ln)
			if strings.HasPrefix(ln, "github.com/hattya/go.sh/") {
				if i := strings.IndexByte(ln, '('); i > 0 {
					ln = ln[:i]
				}
				if len(fns) < 6 && (len(fns) == 0 || fns[len(fns)-1] != ln) {
					fns = append(fns, ln)
				}
			}
		}
		en := entries[0]
		return &Violation{Property: prop, Key: "data-race:" + strings.Join(fns, "|"), Class: "data-race", Case: en.Raw,
			Expected: "no data race", Observed: "WARNING: DATA RACE (" + strings.Join(fns, " / ") + ")", Detail: tail,
			GoDebug: gd, Tier: tier, Seed: seed}, en.Idx
	}
	for pass := 0; pass < 2; pass++ {
		wd := "15s"
		if pass == 1 {
			wd = "60s"
		}
		for i, en := range entries {
			if pass == 1 && i > 0 {
				break
			}
			cf := filepath.Join(runDir, fmt.Sprintf("solo-%s-%d-%d.case", tag, attempt, i))
			os.WriteFile(cf, en.Raw, 0o644)
			errf := cf + ".err"
			src, _ := runProc(bin, []string{"solo", "-prop", prop, "-tier", tier, "-seed", fmt.Sprint(seed), "-case", cf, "-out", cf + ".res", "-wd", wd}, gd, errf, 3*time.Minute)
			if src == 0 || src == 1 || src == 4 {
				continue // survived on its own (a violation found solo is also found by the normal run)
			}
			st := tailFile(errf, 6000)
			class := "crash"
			if src == 3 {
				class = "hang"
			}
			key := class + ":" + string(en.Raw)
			if len(key) > 400 {
				key = key[:400]
			}
			return &Violation{Property: prop, Key: key, Class: class, Case: en.Raw,
				Expected: "the call returns (no process death, no hang)", Observed: firstLine(st), Detail: st,
				GoDebug: gd, Tier: tier, Seed: seed}, en.Idx
		}
	}
	return nil, entries[0].Idx
}

func mergeHashes(files []string) int64 {
	var all []uint64
	for _, f := range files {
		fh, err := os.Open(f)
		if err != nil {
			continue
		}
		r := bufio.NewReaderSize(fh, 1<<20)
		var b [8]byte
		for {
			if _, err := io.ReadFull(r, b[:]); err != nil {
				break
			}
			all = append(all, binary.LittleEndian.Uint64(b[:]))
		}
		fh.Close()
	}
	sort.Slice(all, func(i, j int) bool { return all[i] < all[j] })
	var n int64
	for i, h := range all {
		if i == 0 || h != all[i-1] {
			n++
		}
	}
	return n
}

// ReplayMain re-executes the case of a replay file in a fresh worker.
func ReplayMain(file string) int {
	b, err := os.ReadFile(file)
	if err != nil {
		fmt.Fprintln(os.Stderr, err)
		return 2
	}
	var v Violation
	if err := json.Unmarshal(b, &v); err != nil {
		fmt.Fprintln(os.Stderr, err)
		return 2
	}
	e := Lookup(v.Property)
	if e == nil {
		fmt.Fprintln(os.Stderr, "unknown property", v.Property)
		return 2
	}
	self, _ := os.Executable()
	bin := self
	if e.Race {
		bin = filepath.Join(filepath.Dir(self), "verif-race")
	}
	dir, _ := os.MkdirTemp("", "verif-replay-")
	defer os.RemoveAll(dir)
	cf := filepath.Join(dir, "case.json")
	os.WriteFile(cf, v.Case, 0o644)
	gd := v.GoDebug
	if gd == "" {
		gd = "panicnil=1"
	}
	tier := v.Tier
	if tier == "" {
		tier = "quick"
	}
	rc, _ := runProc(bin, []string{"solo", "-prop", v.Property, "-tier", tier, "-seed", fmt.Sprint(v.Seed), "-case", cf, "-out", cf + ".res", "-wd", "60s"}, gd, cf+".err", 5*time.Minute)
	fmt.Printf("replay %s property=%s godebug=%s\n case: %s\n recorded: class=%s expected=%v observed=%v\n", file, v.Property, gd, trunc(string(v.Case)), v.Class, trunc(v.Expected), trunc(v.Observed))
	switch rc {
	case 0:
		fmt.Println(" now: no violation")
		return 0
	case 1:
		if r := readResult(cf + ".res"); r != nil {
			for _, nv := range r.Violations {
				fmt.Printf(" now: VIOLATION class=%s expected=%v observed=%v\n", nv.Class, trunc(nv.Expected), trunc(nv.Observed))
			}
		}
		return 1
	default:
		fmt.Printf(" now: worker died rc=%d: %s\n", rc, firstLine(tailFile(cf+".err", 2000)))
		return 1
	}
}
