// Package core is the driver/worker framework shared by all property engines.
//
// A check run is:  driver -> N worker processes (shards) -> results merged by
// the driver -> evidence file, replay files, verdict.  Every go.sh call happens
// in a worker, never in the driver, so that a crash or a hang of go.sh is an
// observation (with an input attached), not a dead checker.
package core

import (
	"encoding/binary"
	"encoding/json"
	"fmt"
	"hash/fnv"
	"math/rand/v2"
	"os"
	"runtime"
	"runtime/debug"
	"sort"
	"strings"
	"sync"
	"sync/atomic"
	"syscall"
	"time"
)

// Engine describes how one property is decided.
type Engine struct {
	ID          string
	Level       string // exploration | fault_enumeration
	Rule        string // how cases are generated and what makes one distinct / non-trivial
	Technique   string
	Assumptions []string
	// GoDebug lists the GODEBUG settings under which the whole case list is run
	// (one full set of shards per entry).  Default: {"panicnil=1"} (the setting
	// go.sh's own go.mod selects).
	GoDebug []string
	// Race: run the workers from the -race binary.
	Race bool
	// Shards overrides the number of worker processes (default: NumCPU).
	Shards int
	// Watchdog per case (default 10s) and per shard (default 20 min quick / 3 h thorough).
	CaseWatchdog time.Duration
	// Gen enumerates the case list (a pure function of c.Tier, c.Seed) and runs
	// each case through Do.
	Gen func(c *Ctx)
	// Replay runs one case from its JSON form (used by solo re-runs and replay).
	Replay func(c *Ctx, raw []byte)
	// Finish runs in the driver on the merged result; it returns a non-empty
	// string to turn the verdict INCONCLUSIVE (too little observed).
	Finish func(m *Merged) string
	// Exhaustive marks that (part of) the run enumerated a finite space completely.
	Exhaustive func(tier string) bool
}

var engines = map[string]*Engine{}

func Register(e *Engine) { engines[e.ID] = e }
func Lookup(id string) *Engine {
	return engines[id]
}
func IDs() []string {
	var ids []string
	for id := range engines {
		ids = append(ids, id)
	}
	sort.Strings(ids)
	return ids
}

// Violation is one witness.
type Violation struct {
	Property string          `json:"property"`
	Key      string          `json:"key"` // canonical identity of the failing input (known-finding matching, dedup)
	Class    string          `json:"class"`
	Case     json.RawMessage `json:"case"`
	Expected any             `json:"expected,omitempty"`
	Observed any             `json:"observed,omitempty"`
	Detail   string          `json:"detail,omitempty"`
	GoDebug  string          `json:"godebug,omitempty"`
	Tier     string          `json:"tier,omitempty"`
	Seed     int64           `json:"seed"`
}

// Result is what a worker reports.
type Result struct {
	Evals       int64            `json:"evals"`
	Cases       int64            `json:"cases"`
	Counters    map[string]int64 `json:"counters"`
	Skipped     map[string]int64 `json:"skipped"`
	Samples     []any            `json:"samples"`
	Violations  []Violation      `json:"violations"`
	NViolations int64            `json:"n_violations"`
	Inconcl     []string         `json:"inconclusive"`
	MaxCaseNs   int64            `json:"max_case_ns"`
	Done        bool             `json:"done"`
	LastIdx     int64            `json:"last_idx"`
}

// Ctx is the per-worker context handed to engines.
type Ctx struct {
	Prop    string
	Tier    string
	Seed    int64
	Shard   int
	NShards int
	From    int64 // skip cases with index < From (resume after a crash)
	GoDebug string
	Solo    bool // running a single case (solo re-run / replay)
	SkipIdx map[int64]bool

	idx     int64
	res     Result
	hashes  []uint64
	hmu     sync.Mutex
	slot    []byte
	slotSeq uint64
	cur     []byte
	curKey  string
	start   atomic.Int64 // unix nanos of current case start, 0 when idle
	maxViol int
	rsv     *rand.Rand
	nsample int64
	mu      sync.Mutex
}

const slotSize = 1 << 20
const slotRing = 4
const slotEntry = slotSize / slotRing

func Quick(c *Ctx) bool { return c.Tier != "thorough" }

// Pick returns q for the quick tier and t for the thorough tier.
func (c *Ctx) Pick(q, t int) int {
	if c.Tier == "thorough" {
		return t
	}
	return q
}

// Rand returns a PRNG determined by (seed, property, stream, index).
func (c *Ctx) Rand(stream string, index int64) *rand.Rand {
	h := fnv.New64a()
	h.Write([]byte(c.Prop))
	h.Write([]byte{0})
	h.Write([]byte(stream))
	return rand.New(rand.NewPCG(uint64(c.Seed)*0x9E3779B97F4A7C15+uint64(index), h.Sum64()))
}

// Mine reports whether the case with the next index belongs to this shard
// and advances the index.  Engines that build expensive cases call Mine
// first and skip the construction when it returns false.
func (c *Ctx) Mine() bool {
	i := c.idx
	c.idx++
	if c.Solo {
		return true
	}
	if i < c.From || int(i%int64(c.NShards)) != c.Shard {
		return false
	}
	if c.SkipIdx[i] {
		c.res.Skipped["case killed the worker in an earlier attempt (reported separately)"]++
		return false
	}
	return true
}

// Index returns the index of the case most recently claimed through Mine.
func (c *Ctx) Index() int64 { return c.idx - 1 }

// Run executes one claimed case: journals it, arms the watchdog, recovers panics
// of the calling goroutine.
func Run[T any](c *Ctx, cs T, f func(c *Ctx, cs T)) {
	raw, err := json.Marshal(cs)
	if err != nil {
		panic(err)
	}
	c.cur = raw
	c.writeSlot(raw)
	c.res.Cases++
	c.res.LastIdx = c.idx - 1
	t0 := time.Now()
	c.start.Store(t0.UnixNano())
	func() {
		defer func() {
			if e := recover(); e != nil {
				c.Violation("panic", fmt.Sprintf("panic:%s", firstLine(fmt.Sprint(e))), "no panic in the caller's goroutine",
					fmt.Sprint(e), string(debug.Stack()))
			}
		}()
		f(c, cs)
	}()
	c.start.Store(0)
	if d := time.Since(t0).Nanoseconds(); d > c.res.MaxCaseNs {
		c.res.MaxCaseNs = d
	}
}

// Do = Mine + Run for cheap-to-build cases.
func Do[T any](c *Ctx, cs T, f func(c *Ctx, cs T)) {
	if c.Mine() {
		Run(c, cs, f)
	}
}

func firstLine(s string) string {
	if i := strings.IndexByte(s, '\n'); i >= 0 {
		s = s[:i]
	}
	if len(s) > 200 {
		s = s[:200]
	}
	return s
}

func (c *Ctx) writeSlot(raw []byte) {
	if c.slot == nil {
		return
	}
	c.slotSeq++
	off := int(c.slotSeq%slotRing) * slotEntry
	e := c.slot[off : off+slotEntry]
	n := len(raw)
	if n > slotEntry-32 {
		n = slotEntry - 32
	}
	// invalidate, write body, then header
	binary.LittleEndian.PutUint64(e[0:], 0)
	binary.LittleEndian.PutUint64(e[8:], uint64(c.idx-1))
	binary.LittleEndian.PutUint64(e[16:], uint64(n))
	copy(e[24:], raw[:n])
	binary.LittleEndian.PutUint64(e[0:], c.slotSeq)
}

// SlotEntry is a journalled case recovered after a worker died.
type SlotEntry struct {
	Seq uint64
	Idx int64
	Raw []byte
}

func ReadSlot(path string) []SlotEntry {
	b, err := os.ReadFile(path)
	if err != nil || len(b) < slotSize {
		return nil
	}
	var out []SlotEntry
	for i := 0; i < slotRing; i++ {
		e := b[i*slotEntry : (i+1)*slotEntry]
		seq := binary.LittleEndian.Uint64(e[0:])
		if seq == 0 {
			continue
		}
		n := int(binary.LittleEndian.Uint64(e[16:]))
		if n > slotEntry-32 {
			continue
		}
		out = append(out, SlotEntry{Seq: seq, Idx: int64(binary.LittleEndian.Uint64(e[8:])), Raw: append([]byte(nil), e[24:24+n]...)})
	}
	sort.Slice(out, func(i, j int) bool { return out[i].Seq > out[j].Seq })
	return out
}

func (c *Ctx) openSlot(path string) error {
	f, err := os.OpenFile(path, os.O_RDWR|os.O_CREATE|os.O_TRUNC, 0o644)
	if err != nil {
		return err
	}
	defer f.Close()
	if err := f.Truncate(slotSize); err != nil {
		return err
	}
	m, err := syscall.Mmap(int(f.Fd()), 0, slotSize, syscall.PROT_READ|syscall.PROT_WRITE, syscall.MAP_SHARED)
	if err != nil {
		return err
	}
	c.slot = m
	return nil
}

// Eval counts n go.sh API calls whose result an oracle judged.
func (c *Ctx) Eval(n int) { c.res.Evals += int64(n) }

// Count adds to a named evidence counter.
func (c *Ctx) Count(name string, n int) {
	c.mu.Lock()
	c.res.Counters[name] += int64(n)
	c.mu.Unlock()
}

// Max keeps the maximum of a named evidence counter.
func (c *Ctx) Max(name string, v int64) {
	c.mu.Lock()
	if v > c.res.Counters[name] {
		c.res.Counters[name] = v
	}
	c.mu.Unlock()
}

// Skip counts a case (or sub-case) deliberately not judged.
func (c *Ctx) Skip(reason string) {
	c.mu.Lock()
	c.res.Skipped[reason]++
	c.mu.Unlock()
}

// Distinct records a distinct non-trivial case identity.
func (c *Ctx) Distinct(parts ...string) {
	h := fnv.New64a()
	for _, p := range parts {
		h.Write([]byte(p))
		h.Write([]byte{0xff})
	}
	c.DistinctHash(h.Sum64())
}

func (c *Ctx) DistinctHash(h uint64) {
	c.hmu.Lock()
	c.hashes = append(c.hashes, h)
	if len(c.hashes) >= 1<<22 {
		c.compact()
	}
	c.hmu.Unlock()
}

func (c *Ctx) compact() {
	sort.Slice(c.hashes, func(i, j int) bool { return c.hashes[i] < c.hashes[j] })
	out := c.hashes[:0]
	var prev uint64
	for i, h := range c.hashes {
		if i == 0 || h != prev {
			out = append(out, h)
		}
		prev = h
	}
	c.hashes = out
}

// Sample offers a case for the evidence file (a few are kept).
func (c *Ctx) Sample(v any) {
	c.mu.Lock()
	defer c.mu.Unlock()
	c.nsample++
	if len(c.res.Samples) < 4 {
		c.res.Samples = append(c.res.Samples, v)
		return
	}
	if c.rsv == nil {
		c.rsv = rand.New(rand.NewPCG(uint64(c.Seed), uint64(c.Shard)+77))
	}
	if len(c.res.Samples) < 8 {
		c.res.Samples = append(c.res.Samples, v)
		return
	}
	if j := c.rsv.Int64N(c.nsample); j < 4 {
		c.res.Samples[4+j] = v
	}
}

// Violation records a witness for the current case.
func (c *Ctx) Violation(class, key string, expected, observed any, detail string) {
	c.mu.Lock()
	defer c.mu.Unlock()
	c.res.NViolations++
	if len(c.res.Violations) >= c.maxViol {
		return
	}
	c.res.Violations = append(c.res.Violations, Violation{
		Property: c.Prop, Key: key, Class: class, Case: append(json.RawMessage(nil), c.cur...),
		Expected: expected, Observed: observed, Detail: detail, GoDebug: c.GoDebug, Tier: c.Tier, Seed: c.Seed,
	})
}

// Inconclusive records an observation that is neither pass nor fail.
func (c *Ctx) Inconclusive(what string) {
	c.mu.Lock()
	if len(c.res.Inconcl) < 50 {
		c.res.Inconcl = append(c.res.Inconcl, what)
	}
	c.res.Counters["inconclusive"]++
	c.mu.Unlock()
}

func (c *Ctx) watchdog(limit time.Duration) {
	go func() {
		for {
			time.Sleep(250 * time.Millisecond)
			s := c.start.Load()
			if s != 0 && time.Since(time.Unix(0, s)) > limit {
				buf := make([]byte, 1<<20)
				n := runtime.Stack(buf, true)
				d1 := goshGoroutines(string(buf[:n]))
				time.Sleep(time.Second)
				buf2 := make([]byte, 1<<20)
				n2 := runtime.Stack(buf2, true)
				d2 := goshGoroutines(string(buf2[:n2]))
				if c.start.Load() == s && d1 != "" && d1 == d2 && !strings.Contains(d1, "[run") && !strings.Contains(d1, "[sleep") {
					// the same go.sh goroutines, all blocked, in two dumps a second apart, long after
					// the case started: nothing can wake them any more
					fmt.Fprintf(os.Stderr, "WATCHDOG-DEADLOCK: case %d: every go.sh goroutine is blocked: %s\n", c.idx-1, d1)
				}
				fmt.Fprintf(os.Stderr, "WATCHDOG: case %d exceeded %v\n%s\n", c.idx-1, limit, buf[:n])
				os.Exit(3)
			}
		}
	}()
}

// cleanEnv gives every worker the same, small process environment so that
// interp.NewExecEnv starts from a known store.
func cleanEnv() {
	tmp := os.Getenv("TMPDIR")
	rd := os.Getenv("VERIF_RUNDIR")
	path := os.Getenv("PATH")
	gd := os.Getenv("GODEBUG")
	gr := os.Getenv("GORACE")
	cov := os.Getenv("GOCOVERDIR")
	os.Clearenv()
	if cov != "" {
		os.Setenv("GOCOVERDIR", cov) // ./check cover: statement coverage of go.sh reached by the workloads
	}
	os.Setenv("PATH", path)
	os.Setenv("HOME", "/nonexistent/verif-home")
	os.Setenv("GODEBUG", gd)
	if gr != "" {
		os.Setenv("GORACE", gr)
	}
	if tmp != "" {
		os.Setenv("TMPDIR", tmp)
	}
	if rd != "" {
		os.Setenv("VERIF_RUNDIR", rd)
	}
}

func newCtx(prop, tier string, seed int64) *Ctx {
	cleanEnv()
	c := &Ctx{Prop: prop, Tier: tier, Seed: seed, NShards: 1, maxViol: 40}
	c.res.Counters = map[string]int64{}
	c.res.Skipped = map[string]int64{}
	return c
}

// WorkerMain runs one shard.
func WorkerMain(prop, tier string, seed int64, shard, nshards int, skip []int64, out, slot string) int {
	e := Lookup(prop)
	if e == nil {
		fmt.Fprintln(os.Stderr, "unknown property", prop)
		return 4
	}
	c := newCtx(prop, tier, seed)
	c.Shard, c.NShards = shard, nshards
	c.SkipIdx = map[int64]bool{}
	for _, i := range skip {
		c.SkipIdx[i] = true
	}
	c.GoDebug = os.Getenv("GODEBUG")
	if slot != "" {
		if err := c.openSlot(slot); err != nil {
			fmt.Fprintln(os.Stderr, "slot:", err)
			return 4
		}
	}
	wd := e.CaseWatchdog
	if wd == 0 {
		wd = 30 * time.Second
	}
	c.watchdog(wd)
	e.Gen(c)
	c.res.Done = true
	return c.finishWorker(out)
}

func (c *Ctx) finishWorker(out string) int {
	c.hmu.Lock()
	c.compact()
	hb := make([]byte, 8*len(c.hashes))
	for i, h := range c.hashes {
		binary.LittleEndian.PutUint64(hb[8*i:], h)
	}
	c.hmu.Unlock()
	if out != "" {
		if err := os.WriteFile(out+".hashes", hb, 0o644); err != nil {
			fmt.Fprintln(os.Stderr, err)
			return 4
		}
		b, err := json.Marshal(&c.res)
		if err != nil {
			fmt.Fprintln(os.Stderr, "marshal result:", err)
			return 4
		}
		if err := os.WriteFile(out+".tmp", b, 0o644); err != nil {
			fmt.Fprintln(os.Stderr, err)
			return 4
		}
		os.Rename(out+".tmp", out)
	}
	return 0
}

// SoloMain runs a single case from a file; exit 0 = no violation, 1 = violation
// (result JSON in out), 2/3 = crash / watchdog (by the runtime / watchdog).
func SoloMain(prop, tier string, seed int64, caseFile, out string, wd time.Duration) int {
	e := Lookup(prop)
	if e == nil {
		return 4
	}
	raw, err := os.ReadFile(caseFile)
	if err != nil {
		fmt.Fprintln(os.Stderr, err)
		return 4
	}
	c := newCtx(prop, tier, seed)
	c.Solo = true
	c.GoDebug = os.Getenv("GODEBUG")
	c.watchdog(wd)
	c.idx = 1
	e.Replay(c, raw)
	c.res.Done = true
	if rc := c.finishWorker(out); rc != 0 {
		return rc
	}
	if c.res.NViolations > 0 {
		return 1
	}
	return 0
}

// ReplayOne is a helper for Engine.Replay implementations.
func ReplayOne[T any](c *Ctx, raw []byte, f func(c *Ctx, cs T)) {
	var cs T
	if err := json.Unmarshal(raw, &cs); err != nil {
		fmt.Fprintln(os.Stderr, "replay: bad case:", err)
		os.Exit(4)
	}
	Run(c, cs, f)
}

// ScratchDir creates a fresh directory for this worker below the driver's run
// directory (removed by the driver) or below TMPDIR (solo / replay runs).
func (c *Ctx) ScratchDir(tag string) string {
	base := os.Getenv("VERIF_RUNDIR")
	d, err := os.MkdirTemp(base, fmt.Sprintf("scratch-%s-%d-", tag, c.Shard))
	if err != nil {
		panic(err)
	}
	return d
}

// goshGoroutines summarises the goroutines of a stack dump that are inside
// go.sh code: "id[state]@function" sorted by appearance.
func goshGoroutines(dump string) string {
	var out []string
	for _, g := range strings.Split(dump, "\n\n") {
		if !strings.Contains(g, "github.com/hattya/go.sh/") {
			continue
		}
		lines := strings.Split(g, "\n")
		hdr := lines[0]
		// "goroutine 12 [chan receive, 2 minutes]:" -> drop the duration
		if i := strings.IndexByte(hdr, ','); i > 0 {
			hdr = hdr[:i] + "]"
		}
		fn := ""
		for _, l := range lines[1:] {
			if strings.HasPrefix(l, "github.com/hattya/go.sh/") {
				fn = l
				if j := strings.IndexByte(fn, '('); j > 0 {
					fn = fn[:j]
				}
				break
			}
		}
		out = append(out, hdr+"@"+fn)
	}
	return strings.Join(out, " ; ")
}
