// Package sched is a coarse schedule controller over the go.sh verif hooks.
//
// go.sh runs its lexer in a goroutine that hands tokens to the parser over an
// unbuffered channel.  After every hand-off both goroutines are runnable; the
// controller decides which of them runs its segment first by parking the other
// one at its hook until the peer has reached its next blocking point (next
// hand-off, here-document wait, exit).  A parked goroutine is always released
// after a timeout (a "forced release"), so the controller can delay go.sh but
// never dead-lock it; verdicts never depend on the controller, only on results.
package sched

import (
	"hash/fnv"
	"sync"
	"time"

	"github.com/hattya/go.sh/interp"
	"github.com/hattya/go.sh/parser"

	"verif/mon"
)

// Mode selects the schedule of one call.
type Mode struct {
	Vector      []bool // decision per hand-off in order of occurrence: true = the lexer runs first
	Default     bool   // decision for hand-offs beyond the vector
	LateReturn  bool   // park the caller at parse-exit until every lexer has exited or blocked
	HoldPopWait bool   // park a lexer that has decided to wait for a here-document until the parser has pushed it (the lexer is "descheduled" between its check and its wait)
	Timeout     time.Duration
}

// Result describes what the controller saw.
type Result struct {
	Handoffs                    int
	Forced                      int    // parks released by the timeout (the requested schedule was not honoured there)
	Trace                       uint64 // hash of the event sequence: identifies the interleaving actually executed
	Events                      int
	PopWaitBeforePush           bool // a lexer reached its here-document wait before the parser pushed (lexer-first evidence)
	PushBeforePopWait           bool
	LexersStarted, LexersExited int
}

const (
	stRunning = iota
	stAtSend
	stAtRecv
	stPopWait
	stExited
)

type lexState struct {
	ord     int
	sends   int
	recvs   int
	lstate  int
	pstate  int
	pushes  int
	popwait bool
}

type session struct {
	mu     sync.Mutex
	cond   *sync.Cond
	mode   Mode
	lex    map[uintptr]*lexState
	byHD   map[uintptr]uintptr
	dec    map[[2]int]bool
	res    Result
	h      uint64
	closed bool
}

// internal event kinds
const (
	eStart = iota
	eExit
	eRecvBefore
	eRecvAfter
	eSendBefore
	eSendAfter
	eBail
	ePopWait
	ePopWake
	ePush
	eParseExit
	eOther
)

func (s *session) state(l uintptr) *lexState {
	st := s.lex[l]
	if st == nil {
		st = &lexState{ord: len(s.lex)}
		s.lex[l] = st
	}
	return st
}

func (s *session) decide(st *lexState, i int) bool {
	k := [2]int{st.ord, i}
	if d, ok := s.dec[k]; ok {
		return d
	}
	n := len(s.dec)
	d := s.mode.Default
	if n < len(s.mode.Vector) {
		d = s.mode.Vector[n]
	}
	s.dec[k] = d
	s.res.Handoffs = len(s.dec)
	return d
}

// wait parks the calling goroutine until ok() holds or the timeout passes.
func (s *session) wait(ok func() bool) {
	if ok() || s.closed {
		return
	}
	deadline := time.Now().Add(s.mode.Timeout)
	timer := time.AfterFunc(s.mode.Timeout, func() {
		s.mu.Lock()
		s.cond.Broadcast()
		s.mu.Unlock()
	})
	defer timer.Stop()
	for !ok() && !s.closed {
		if !time.Now().Before(deadline) {
			s.res.Forced++
			return
		}
		s.cond.Wait()
	}
}

func (s *session) event(ev int, l uintptr) {
	s.mu.Lock()
	defer s.mu.Unlock()
	if s.closed {
		return
	}
	st := s.state(l)
	s.res.Events++
	s.h = (s.h ^ uint64(ev*31+st.ord+1)) * 1099511628211
	switch ev {
	case eStart:
		s.res.LexersStarted++
	case eExit:
		st.lstate = stExited
		s.res.LexersExited++
	case eBail:
		st.lstate = stExited
	case eRecvBefore:
		st.pstate = stAtRecv
	case eSendBefore:
		st.lstate = stAtSend
	case ePopWait:
		st.lstate = stPopWait
		st.popwait = true
		if st.pushes == 0 {
			s.res.PopWaitBeforePush = true
		}
		if s.mode.HoldPopWait {
			n := st.pushes
			s.cond.Broadcast()
			s.wait(func() bool { return st.pushes > n })
			return
		}
	case ePopWake:
		st.lstate = stRunning
	case ePush:
		st.pushes++
		if !st.popwait {
			s.res.PushBeforePopWait = true
		}
	case eRecvAfter:
		i := st.recvs
		st.recvs++
		st.pstate = stRunning
		s.cond.Broadcast()
		if s.decide(st, i) {
			// lexer first: the parser waits until the lexer is at its next blocking point
			s.wait(func() bool {
				return (st.lstate == stAtSend && st.sends > i) || st.lstate == stPopWait || st.lstate == stExited
			})
		}
		return
	case eSendAfter:
		i := st.sends
		st.sends++
		st.lstate = stRunning
		s.cond.Broadcast()
		if !s.decide(st, i) {
			// parser first: the lexer waits until the parser asks for the next token or is done
			s.wait(func() bool {
				return (st.pstate == stAtRecv && st.recvs > i) || st.pstate == stExited
			})
		}
		return
	case eParseExit:
		st.pstate = stExited
		s.cond.Broadcast()
		if s.mode.LateReturn && st.ord == 0 {
			s.wait(func() bool {
				for _, x := range s.lex {
					if x.lstate == stRunning {
						return false
					}
				}
				return true
			})
		}
		return
	}
	s.cond.Broadcast()
}

var runMu sync.Mutex

func newSession(mode Mode) *session {
	if mode.Timeout == 0 {
		mode.Timeout = 50 * time.Millisecond
	}
	s := &session{mode: mode, lex: map[uintptr]*lexState{}, byHD: map[uintptr]uintptr{}, dec: map[[2]int]bool{}, h: 14695981039346656037}
	s.cond = sync.NewCond(&s.mu)
	return s
}

func (s *session) finish() Result {
	s.mu.Lock()
	s.closed = true
	s.cond.Broadcast()
	r := s.res
	r.Trace = s.h
	s.mu.Unlock()
	return r
}

// RunParser executes f (a call into the parser package) under the mode.
func RunParser(mode Mode, f func()) Result {
	runMu.Lock()
	defer runMu.Unlock()
	s := newSession(mode)
	cb := func(ev int, l, aux uintptr) {
		k := eOther
		switch ev {
		case parser.EvStart:
			k = eStart
			s.mu.Lock()
			s.byHD[aux] = l
			s.mu.Unlock()
		case parser.EvExit:
			k = eExit
		case parser.EvRecvBefore:
			k = eRecvBefore
		case parser.EvRecvAfter:
			k = eRecvAfter
		case parser.EvSendBefore:
			k = eSendBefore
		case parser.EvSendAfter:
			k = eSendAfter
		case parser.EvBail:
			k = eBail
		case parser.EvHdPopWait, parser.EvHdPopWake, parser.EvHdPush:
			s.mu.Lock()
			l = s.byHD[aux]
			s.mu.Unlock()
			if l == 0 {
				return
			}
			k = map[int]int{parser.EvHdPopWait: ePopWait, parser.EvHdPopWake: ePopWake, parser.EvHdPush: ePush}[ev]
		case parser.EvParseExit, parser.EvNestedParseExit:
			k = eParseExit
		case parser.EvRead, parser.EvNest, parser.EvErrWrite, parser.EvHdInc, parser.EvHdPopGot, parser.EvSubst, parser.EvJoinBefore:
			return
		}
		s.event(k, l)
	}
	mon.ParserCallback.Store(&cb)
	defer mon.ParserCallback.Store(nil)
	f()
	return s.finish()
}

// RunInterp executes f (a call into interp.Eval / Expand) under the mode.
func RunInterp(mode Mode, f func()) Result {
	runMu.Lock()
	defer runMu.Unlock()
	s := newSession(mode)
	cb := func(ev int, l uintptr) {
		k := eOther
		switch ev {
		case interp.EvStart:
			k = eStart
		case interp.EvExit:
			k = eExit
		case interp.EvRecvBefore:
			k = eRecvBefore
		case interp.EvRecvAfter:
			k = eRecvAfter
		case interp.EvSendBefore:
			k = eSendBefore
		case interp.EvSendAfter:
			k = eSendAfter
		case interp.EvBail:
			k = eBail
		case interp.EvParseExit:
			k = eParseExit
		default:
			return
		}
		s.event(k, l)
	}
	mon.InterpCallback.Store(&cb)
	defer mon.InterpCallback.Store(nil)
	f()
	return s.finish()
}

// Hash64 is a small helper for callers that fold results into trace identities.
func Hash64(parts ...string) uint64 {
	h := fnv.New64a()
	for _, p := range parts {
		h.Write([]byte(p))
		h.Write([]byte{0})
	}
	return h.Sum64()
}
