// Package mon installs the go.sh verif hooks and keeps the counters the
// monitors read: lexer goroutines started / exited, alias substitutions,
// ReadRune calls, plus an optional per-event callback (schedule controller,
// trace recorder).
package mon

import (
	"os"
	"sync/atomic"
	"time"

	"github.com/hattya/go.sh/interp"
	"github.com/hattya/go.sh/parser"
)

var (
	PStarted, PExited atomic.Int64 // parser lexer goroutines
	IStarted, IExited atomic.Int64 // arithmetic lexer goroutines
	Substs            atomic.Int64
	Reads             atomic.Int64
)

// ParserCallback / InterpCallback, when set, see every event after the counters
// were updated.  They run on the goroutine that hit the hook.
var ParserCallback atomic.Pointer[func(ev int, lexer, aux uintptr)]
var InterpCallback atomic.Pointer[func(ev int, lexer uintptr)]

// Enabled is false when the worker was started with VERIF_NOHOOKS=1: the hooks
// are then never installed (the race detector sees go.sh exactly as it is, with
// no synchronisation added by a callback).
var Enabled = os.Getenv("VERIF_NOHOOKS") == ""

func init() {
	if !Enabled {
		return
	}
	parser.VerifHook = func(ev int, lexer, aux uintptr) {
		switch ev {
		case parser.EvStart:
			PStarted.Add(1)
		case parser.EvExit:
			PExited.Add(1)
		case parser.EvSubst:
			Substs.Add(1)
		case parser.EvRead:
			Reads.Add(1)
		}
		if f := ParserCallback.Load(); f != nil {
			(*f)(ev, lexer, aux)
		}
	}
	interp.VerifHook = func(ev int, lexer uintptr) {
		switch ev {
		case interp.EvStart:
			IStarted.Add(1)
		case interp.EvExit:
			IExited.Add(1)
		}
		if f := InterpCallback.Load(); f != nil {
			(*f)(ev, lexer)
		}
	}
}

// Alive returns the number of go.sh lexer goroutines started but not exited.
func Alive() int64 {
	return (PStarted.Load() - PExited.Load()) + (IStarted.Load() - IExited.Load())
}

// Quiesce waits until every lexer goroutine started so far has exited, or the
// timeout passes; it returns the number still alive.
func Quiesce(timeout time.Duration) int64 {
	deadline := time.Now().Add(timeout)
	for i := 0; ; i++ {
		n := Alive()
		if n == 0 || time.Now().After(deadline) {
			return n
		}
		if i < 50 {
			time.Sleep(20 * time.Microsecond)
		} else {
			time.Sleep(time.Millisecond)
		}
	}
}
