// Package skel renders go.sh ASTs as position-free skeletons (strict and
// normalised) and as a complete dump including every position.
package skel

import (
	"fmt"
	"reflect"
	"strings"

	"github.com/hattya/go.sh/ast"
)

// Mode of a skeleton rendering.
type Mode int

const (
	Strict     Mode = iota // node kinds, operators, separators, list grouping exactly as in the tree
	Normalised             // ";" and newline equivalent, trailing ";" dropped, for-loop ";" vs newline dropped
)

// Cmds renders a command sequence.
func Cmds(cmds []ast.Command, m Mode) string {
	var b strings.Builder
	w := &walker{b: &b, m: m}
	if m == Normalised {
		w.seq(cmds)
	} else {
		for i, c := range cmds {
			if i > 0 {
				b.WriteByte(' ')
			}
			w.command(c)
		}
	}
	return b.String()
}

// Word renders one word (strict).
func Word(wd ast.Word) string {
	var b strings.Builder
	w := &walker{b: &b}
	w.word(wd)
	return b.String()
}

type walker struct {
	b *strings.Builder
	m Mode
}

func (w *walker) ws(s string) { w.b.WriteString(s) }

// seq renders a compound list in normalised form: a flat sequence of and-or
// lists each tagged seq or async.
func (w *walker) seq(cmds []ast.Command) {
	first := true
	emit := func(ao *ast.AndOrList) {
		if !first {
			w.ws(" ")
		}
		first = false
		w.andor(ao)
	}
	for _, c := range cmds {
		switch c := c.(type) {
		case ast.List:
			for _, ao := range c {
				emit(ao)
			}
		case *ast.AndOrList:
			emit(c)
		case *ast.Pipeline:
			emit(&ast.AndOrList{Pipeline: c})
		case *ast.Cmd:
			emit(&ast.AndOrList{Pipeline: &ast.Pipeline{Cmd: c}})
		default:
			w.ws(fmt.Sprintf("(?command %T)", c))
		}
	}
}

func (w *walker) cmds(cmds []ast.Command) {
	if w.m == Normalised {
		w.seq(cmds)
		return
	}
	for i, c := range cmds {
		if i > 0 {
			w.ws(" ")
		}
		w.command(c)
	}
}

func (w *walker) command(c ast.Command) {
	switch c := c.(type) {
	case ast.List:
		w.ws("(list")
		for _, ao := range c {
			w.ws(" ")
			w.andor(ao)
		}
		w.ws(")")
	case *ast.AndOrList:
		w.andor(c)
	case *ast.Pipeline:
		w.pipeline(c)
	case *ast.Cmd:
		w.cmd(c)
	case nil:
		w.ws("(nil-command)")
	default:
		w.ws(fmt.Sprintf("(?command %T)", c))
	}
}

func (w *walker) andor(ao *ast.AndOrList) {
	if ao == nil {
		w.ws("(nil-andor)")
		return
	}
	w.ws("(andor ")
	w.pipelineN(ao.Pipeline)
	for _, x := range ao.List {
		w.ws(" (" + x.Op + " ")
		w.pipelineN(x.Pipeline)
		w.ws(")")
	}
	if w.m == Normalised {
		if ao.Sep == "&" {
			w.ws(" async")
		}
	} else if ao.Sep != "" {
		w.ws(" sep=" + ao.Sep)
	}
	w.ws(")")
}

// pipelineN: in normalised mode a pipeline is always wrapped; in strict mode too
// when it is a member of an and-or list (the tree always has a *Pipeline there).
func (w *walker) pipelineN(p *ast.Pipeline) { w.pipeline(p) }

func (w *walker) pipeline(p *ast.Pipeline) {
	if p == nil {
		w.ws("(nil-pipeline)")
		return
	}
	w.ws("(pipe")
	if !p.Bang.IsZero() {
		w.ws(" !")
	}
	w.ws(" ")
	w.cmd(p.Cmd)
	for _, x := range p.List {
		w.ws(" ")
		if x.Op != "|" {
			w.ws("op=" + x.Op + " ")
		}
		w.cmd(x.Cmd)
	}
	w.ws(")")
}

func (w *walker) cmd(c *ast.Cmd) {
	if c == nil {
		w.ws("(nil-cmd)")
		return
	}
	w.ws("(cmd ")
	w.expr(c.Expr)
	for _, r := range c.Redirs {
		w.ws(" ")
		w.redir(r)
	}
	w.ws(")")
}

func (w *walker) redir(r *ast.Redir) {
	w.ws("(redir ")
	if r.N != nil {
		w.ws("n=" + r.N.Value + " ")
	}
	w.ws(r.Op + " ")
	w.word(r.Word)
	if r.Op == "<<" || r.Op == "<<-" {
		// (the delimiter line is judged by C08, not part of the skeleton)
		w.ws(" heredoc=")
		w.word(r.Heredoc)
	}
	w.ws(")")
}

func (w *walker) expr(x ast.CmdExpr) {
	switch x := x.(type) {
	case *ast.SimpleCmd:
		w.ws("(simple")
		for _, a := range x.Assigns {
			w.ws(" (assign " + a.Name.Value + " " + a.Op + " ")
			w.word(a.Value)
			w.ws(")")
		}
		for _, a := range x.Args {
			w.ws(" ")
			w.word(a)
		}
		w.ws(")")
	case *ast.Subshell:
		w.ws("(subshell ")
		w.cmds(x.List)
		w.ws(")")
	case *ast.Group:
		w.ws("(group ")
		w.cmds(x.List)
		w.ws(")")
	case *ast.ArithEval:
		w.ws("(arith ")
		w.arithWord(x.Expr)
		w.ws(")")
	case *ast.ForClause:
		w.ws("(for " + x.Name.Value)
		if !x.In.IsZero() {
			w.ws(" (in")
			for _, it := range x.Items {
				w.ws(" ")
				w.word(it)
			}
			w.ws(")")
		}
		if w.m == Strict && !x.Semicolon.IsZero() {
			w.ws(" semi")
		}
		w.ws(" (do ")
		w.cmds(x.List)
		w.ws("))")
	case *ast.CaseClause:
		w.ws("(case ")
		w.word(x.Word)
		for i, it := range x.Items {
			w.ws(" (item")
			if w.m == Strict && !it.Lparen.IsZero() {
				w.ws(" lparen")
			}
			w.ws(" (pat")
			for _, p := range it.Patterns {
				w.ws(" ")
				w.word(p)
			}
			w.ws(")")
			if len(it.List) > 0 {
				w.ws(" ")
				w.cmds(it.List)
			}
			if w.m == Strict && !it.Break.IsZero() {
				w.ws(" break")
			}
			_ = i
			w.ws(")")
		}
		w.ws(")")
	case *ast.IfClause:
		w.ws("(if (cond ")
		w.cmds(x.Cond)
		w.ws(") (then ")
		w.cmds(x.List)
		w.ws(")")
		for _, e := range x.Else {
			switch e := e.(type) {
			case *ast.ElifClause:
				w.ws(" (elif (cond ")
				w.cmds(e.Cond)
				w.ws(") (then ")
				w.cmds(e.List)
				w.ws("))")
			case *ast.ElseClause:
				w.ws(" (else ")
				w.cmds(e.List)
				w.ws(")")
			}
		}
		w.ws(")")
	case *ast.WhileClause:
		w.ws("(while (cond ")
		w.cmds(x.Cond)
		w.ws(") (do ")
		w.cmds(x.List)
		w.ws("))")
	case *ast.UntilClause:
		w.ws("(until (cond ")
		w.cmds(x.Cond)
		w.ws(") (do ")
		w.cmds(x.List)
		w.ws("))")
	case *ast.FuncDef:
		w.ws("(func " + x.Name.Value + " ")
		w.command(x.Body)
		w.ws(")")
	case nil:
		w.ws("(nil-expr)")
	default:
		w.ws(fmt.Sprintf("(?expr %T)", x))
	}
}

// arithWord renders the expression of (( )) / $(( )): one literal per
// blank-separated run, as the lexer produces them.
func (w *walker) arithWord(wd ast.Word) {
	w.ws("(w")
	var lit strings.Builder
	var end ast.Pos
	flush := func() {
		if lit.Len() > 0 {
			w.ws(fmt.Sprintf(" (lit %q)", lit.String()))
			lit.Reset()
		}
	}
	for _, p := range wd {
		if l, ok := p.(*ast.Lit); ok {
			// literals separated by a blank stay separate (one per blank-separated run)
			if lit.Len() > 0 && end != l.Pos() {
				flush()
			}
			lit.WriteString(l.Value)
			end = l.End()
			continue
		}
		flush()
		w.ws(" ")
		w.part(p)
	}
	flush()
	w.ws(")")
}

func (w *walker) word(wd ast.Word) {
	w.ws("(w")
	var lit strings.Builder
	flush := func() {
		if lit.Len() > 0 {
			w.ws(fmt.Sprintf(" (lit %q)", lit.String()))
			lit.Reset()
		}
	}
	for _, p := range wd {
		if l, ok := p.(*ast.Lit); ok {
			lit.WriteString(l.Value) // adjacent literals: node boundaries are not part of the shape
			continue
		}
		flush()
		w.ws(" ")
		w.part(p)
	}
	flush()
	w.ws(")")
}

func (w *walker) part(p ast.WordPart) {
	switch p := p.(type) {
	case *ast.Lit:
		w.ws(fmt.Sprintf("(lit %q)", p.Value))
	case *ast.Quote:
		w.ws("(q " + p.Tok)
		inner := Word(p.Value)
		if w.m == Normalised {
			iw := &walker{b: &strings.Builder{}, m: Normalised}
			iw.word(p.Value)
			inner = iw.b.String()
		}
		w.ws(" " + inner + ")")
	case *ast.ParamExp:
		w.ws("(param ")
		if p.Name != nil {
			w.ws(p.Name.Value)
		}
		if p.Braces {
			w.ws(" braces")
		}
		if p.Op != "" {
			w.ws(" op=" + p.Op)
		}
		if p.Word != nil {
			w.ws(" ")
			w.word(p.Word)
		}
		w.ws(")")
	case *ast.CmdSubst:
		if p.Dollar {
			w.ws("(cmdsubst $ ")
		} else {
			w.ws("(cmdsubst ` ")
		}
		w.cmds(p.List)
		w.ws(")")
	case *ast.ArithExp:
		w.ws("(arithexp ")
		w.arithWord(p.Expr)
		w.ws(")")
	case nil:
		w.ws("(nil-part)")
	default:
		w.ws(fmt.Sprintf("(?part %T)", p))
	}
}

// Comments renders a comment list (texts only).
func Comments(cs []*ast.Comment) []string {
	var out []string
	for _, c := range cs {
		out = append(out, c.Text)
	}
	return out
}

// Dump is a complete, deterministic rendering of any value reachable from v:
// every field including positions, following pointers, interfaces and slices.
func Dump(v any) string {
	var b strings.Builder
	dump(&b, reflect.ValueOf(v), 0)
	return b.String()
}

func dump(b *strings.Builder, v reflect.Value, depth int) {
	if depth > 200 {
		b.WriteString("<deep>")
		return
	}
	if !v.IsValid() {
		b.WriteString("nil")
		return
	}
	switch v.Kind() {
	case reflect.Ptr, reflect.Interface:
		if v.IsNil() {
			b.WriteString("nil")
			return
		}
		if v.Kind() == reflect.Ptr {
			b.WriteString("&")
		}
		dump(b, v.Elem(), depth+1)
	case reflect.Struct:
		t := v.Type()
		b.WriteString(t.Name() + "{")
		for i := 0; i < v.NumField(); i++ {
			if i > 0 {
				b.WriteString(" ")
			}
			b.WriteString(t.Field(i).Name + ":")
			dump(b, v.Field(i), depth+1)
		}
		b.WriteString("}")
	case reflect.Slice:
		if v.IsNil() {
			b.WriteString("nil[]")
			return
		}
		b.WriteString("[")
		for i := 0; i < v.Len(); i++ {
			if i > 0 {
				b.WriteString(" ")
			}
			dump(b, v.Index(i), depth+1)
		}
		b.WriteString("]")
	case reflect.String:
		fmt.Fprintf(b, "%q", v.String())
	case reflect.Int, reflect.Int64, reflect.Int32:
		fmt.Fprintf(b, "%d", v.Int())
	case reflect.Uint, reflect.Uint64, reflect.Uint32:
		fmt.Fprintf(b, "%d", v.Uint())
	case reflect.Bool:
		fmt.Fprintf(b, "%v", v.Bool())
	default:
		fmt.Fprintf(b, "<%s>", v.Kind())
	}
}

// Unparse gives back the source text of a word without going through the
// printer under test.
func Unparse(w ast.Word) string {
	var b strings.Builder
	for _, p := range w {
		unparsePart(&b, p)
	}
	return b.String()
}

func unparsePart(b *strings.Builder, p ast.WordPart) {
	switch p := p.(type) {
	case *ast.Lit:
		b.WriteString(p.Value)
	case *ast.Quote:
		if p.Tok == `\` {
			b.WriteString(`\`)
			b.WriteString(Unparse(p.Value))
		} else {
			b.WriteString(p.Tok)
			b.WriteString(Unparse(p.Value))
			b.WriteString(p.Tok)
		}
	case *ast.ParamExp:
		if !p.Braces {
			b.WriteString("$" + p.Name.Value)
			return
		}
		switch {
		case p.Op == "#" && p.Word == nil:
			b.WriteString("${#" + p.Name.Value + "}")
		default:
			b.WriteString("${" + p.Name.Value + p.Op + Unparse(p.Word) + "}")
		}
	case *ast.CmdSubst:
		// only the simple shape "words..." is reconstructed (what here-document
		// bodies of the generator contain); anything else gets a marker
		inner := "<cmdsubst>"
		if len(p.List) == 1 {
			if c, ok := p.List[0].(*ast.Cmd); ok && len(c.Redirs) == 0 {
				if sc, ok := c.Expr.(*ast.SimpleCmd); ok && len(sc.Assigns) == 0 {
					var ws []string
					for _, a := range sc.Args {
						ws = append(ws, Unparse(a))
					}
					inner = strings.Join(ws, " ")
				}
			}
		}
		if p.Dollar {
			b.WriteString("$(" + inner + ")")
		} else {
			b.WriteString("`" + inner + "`")
		}
	case *ast.ArithExp:
		b.WriteString("$((")
		for i, x := range p.Expr {
			if i > 0 {
				b.WriteString(" ")
			}
			unparsePart(b, x)
		}
		b.WriteString("))")
	}
}
