// Package refsplit is a reference field splitter written from the statement of
// property C14 (XCU 2.6.5 with go.sh's pinned reading that empty fields with
// nothing quoted are dropped).
package refsplit

import "strings"

// Seg is a piece of a word after all other expansions: text that is either
// quoted (never cut, always makes a field exist) or unquoted (cut at IFS).
type Seg struct {
	Text   string
	Quoted bool
}

// Split returns the fields of the word.  ifsSet=false means IFS is unset.
func Split(segs []Seg, ifs string, ifsSet bool) []string {
	if !ifsSet {
		ifs = " \t\n"
	}
	type field struct {
		b      strings.Builder
		quoted bool
	}
	var out []string
	cur := &field{}
	flush := func() {
		if cur.b.Len() > 0 || cur.quoted {
			out = append(out, cur.b.String())
		}
		cur = &field{}
	}
	for _, s := range segs {
		if s.Quoted {
			cur.quoted = true
			cur.b.WriteString(s.Text)
			continue
		}
		for _, r := range s.Text {
			if ifs != "" && strings.ContainsRune(ifs, r) {
				// an unquoted IFS character ends the field; runs of IFS white
				// space collapse, a non-white-space one delimits on its own, and
				// the empty fields this produces hold nothing quoted, so they are
				// dropped: all of that is "flush, keep only non-empty-or-quoted".
				flush()
				continue
			}
			cur.b.WriteRune(r)
		}
	}
	flush()
	return out
}
