// Package refsplit is a reference field splitter written from the statement of
// property C14 (XCU 2.6.5 with go.sh's pinned reading that empty fields with
// nothing quoted are dropped).
package refsplit

import (
	"strings"
	"unicode/utf8"
)

// Seg is a piece of a word after all other expansions: text that is either
// quoted (never cut, always makes a field exist) or unquoted (cut at IFS).
type Seg struct {
	Text   string
	Quoted bool
}

// Split returns the fields of the word.  ifsSet=false means IFS is unset.
func Split(segs []Seg, ifs string, ifsSet bool) []string {
	if !ifsSet {
		ifs = " \t\n"
	}
	type field struct {
		b      strings.Builder
		quoted bool
	}
	var out []string
	cur := &field{}
	flush := func() {
		if cur.b.Len() > 0 || cur.quoted {
			out = append(out, cur.b.String())
		}
		cur = &field{}
	}
	for _, s := range segs {
		if s.Quoted {
			cur.quoted = true
			cur.b.WriteString(s.Text)
			continue
		}
		// a character is one decoded unit of text: a valid UTF-8 sequence or a single
		// invalid byte (which is a different character from U+FFFD and from every
		// other invalid byte)
		for t := s.Text; t != ""; {
			_, w := utf8.DecodeRuneInString(t)
			ch := t[:w]
			t = t[w:]
			if IsIFS(ifs, ch) {
				// an unquoted IFS character ends the field; runs of IFS white
				// space collapse, a non-white-space one delimits on its own, and
				// the empty fields this produces hold nothing quoted, so they are
				// dropped: all of that is "flush, keep only non-empty-or-quoted".
				flush()
				continue
			}
			cur.b.WriteString(ch)
		}
	}
	flush()
	return out
}

func IsIFS(ifs, ch string) bool {
	for ifs != "" {
		_, w := utf8.DecodeRuneInString(ifs)
		if ifs[:w] == ch {
			return true
		}
		ifs = ifs[w:]
	}
	return false
}
