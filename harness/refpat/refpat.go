// Package refpat is a reference implementation of the shell pattern matching
// notation (XCU 2.13), written directly from the standard: a pattern is parsed
// into a list of elements and matched by plain backtracking.  It shares no code
// and no idea (regular expressions) with go.sh's pattern package.
package refpat

import (
	"unicode/utf8"
)

// Class of a pattern as far as judging go.sh's answer goes.
type Class int

const (
	OK      Class = iota // well formed: the answer is judged exactly
	Strict               // malformed, pinned by the repo's tests to be an error (unterminated '[', trailing '\', invalid UTF-8)
	Lenient              // outside what the standard defines (reversed range, [.x.], [=x=], unknown class, ...): only "no panic, no bogus success" is demanded
)

type kind int

const (
	kLit kind = iota
	kAny
	kStar
	kBracket
)

type rng struct{ lo, hi rune }

type elem struct {
	k       kind
	r       rune
	neg     bool
	ranges  []rng
	classes []string
}

// Pattern is a parsed pattern.
type Pattern struct {
	elems []elem
	Class Class
	Why   string
}

var posixClasses = map[string]func(r rune) bool{
	"alnum":  func(r rune) bool { return isAlpha(r) || isDigit(r) },
	"alpha":  isAlpha,
	"blank":  func(r rune) bool { return r == ' ' || r == '\t' },
	"cntrl":  func(r rune) bool { return r < 0x20 || r == 0x7f },
	"digit":  isDigit,
	"graph":  func(r rune) bool { return r > 0x20 && r < 0x7f },
	"lower":  func(r rune) bool { return 'a' <= r && r <= 'z' },
	"print":  func(r rune) bool { return r >= 0x20 && r < 0x7f },
	"punct":  func(r rune) bool { return r > 0x20 && r < 0x7f && !isAlpha(r) && !isDigit(r) },
	"space":  func(r rune) bool { return r == ' ' || (r >= '\t' && r <= '\r') },
	"upper":  func(r rune) bool { return 'A' <= r && r <= 'Z' },
	"xdigit": func(r rune) bool { return isDigit(r) || ('a' <= r && r <= 'f') || ('A' <= r && r <= 'F') },
}

func isAlpha(r rune) bool { return ('a' <= r && r <= 'z') || ('A' <= r && r <= 'Z') }
func isDigit(r rune) bool { return '0' <= r && r <= '9' }

// Parse parses a pattern.
func Parse(p string) *Pattern {
	pt := &Pattern{}
	if !utf8.ValidString(p) {
		pt.Class, pt.Why = Strict, "invalid UTF-8"
		return pt
	}
	rs := []rune(p)
	for i := 0; i < len(rs); {
		switch r := rs[i]; r {
		case '?':
			pt.elems = append(pt.elems, elem{k: kAny})
			i++
		case '*':
			pt.elems = append(pt.elems, elem{k: kStar})
			i++
		case '\\':
			if i+1 >= len(rs) {
				pt.Class, pt.Why = Strict, "trailing backslash"
				return pt
			}
			pt.elems = append(pt.elems, elem{k: kLit, r: rs[i+1]})
			i += 2
		case '[':
			e, n, cl, why := parseBracket(rs[i:])
			if cl != OK {
				if cl > pt.Class || pt.Class == OK {
					pt.Class, pt.Why = cl, why
				}
				if cl == Strict {
					return pt
				}
				// lenient: we cannot tell where the expression ends; stop judging
				return pt
			}
			pt.elems = append(pt.elems, e)
			i += n
		default:
			pt.elems = append(pt.elems, elem{k: kLit, r: r})
			i++
		}
	}
	return pt
}

// parseBracket parses a bracket expression starting at rs[0] == '['.
func parseBracket(rs []rune) (e elem, n int, cl Class, why string) {
	e.k = kBracket
	i := 1
	if i < len(rs) && (rs[i] == '!' || rs[i] == '^') {
		e.neg = true
		i++
	}
	first := true
	type item struct {
		r     rune
		class bool
	}
	var prev *item // pending single character that may start a range
	flush := func() {
		if prev != nil {
			e.ranges = append(e.ranges, rng{prev.r, prev.r})
			prev = nil
		}
	}
	for {
		if i >= len(rs) {
			return e, 0, Strict, "unterminated bracket expression"
		}
		r := rs[i]
		switch {
		case r == ']' && !first:
			flush()
			return e, i + 1, OK, ""
		case r == '[' && i+1 < len(rs) && (rs[i+1] == ':' || rs[i+1] == '.' || rs[i+1] == '='):
			d := rs[i+1]
			j := i + 2
			end := -1
			for ; j+1 < len(rs); j++ {
				if rs[j] == d && rs[j+1] == ']' {
					end = j
					break
				}
			}
			if end < 0 {
				// "[:" without ":]" — the standard leaves it open; go.sh's own test pins one reading
				return e, 0, Lenient, "unterminated [: [. or [= inside a bracket expression"
			}
			name := string(rs[i+2 : end])
			if d != ':' {
				return e, 0, Lenient, "collating symbol / equivalence class"
			}
			if _, ok := posixClasses[name]; !ok {
				return e, 0, Lenient, "unknown character class"
			}
			flush()
			e.classes = append(e.classes, name)
			i = end + 2
		case r == '-' && prev != nil && i+1 < len(rs) && rs[i+1] != ']':
			// range prev-X
			j := i + 1
			hi := rs[j]
			if hi == '[' && j+1 < len(rs) && (rs[j+1] == ':' || rs[j+1] == '.' || rs[j+1] == '=') {
				return e, 0, Lenient, "class as range end point"
			}
			if hi == '\\' {
				if j+1 >= len(rs) {
					return e, 0, Strict, "unterminated bracket expression"
				}
				j++
				hi = rs[j]
			}
			if hi < prev.r {
				return e, 0, Lenient, "reversed range"
			}
			e.ranges = append(e.ranges, rng{prev.r, hi})
			prev = nil
			i = j + 1
			// "a-b-c" is undefined
			if i < len(rs) && rs[i] == '-' && i+1 < len(rs) && rs[i+1] != ']' {
				return e, 0, Lenient, "range end point used as range start"
			}
		case r == '\\':
			if i+1 >= len(rs) {
				return e, 0, Strict, "unterminated bracket expression"
			}
			flush()
			prev = &item{r: rs[i+1]}
			i += 2
		default:
			flush()
			prev = &item{r: r}
			i++
		}
		first = false
	}
}

func (e *elem) matches(r rune) bool {
	switch e.k {
	case kLit:
		return e.r == r
	case kAny:
		return true
	case kBracket:
		in := false
		for _, g := range e.ranges {
			if g.lo <= r && r <= g.hi {
				in = true
				break
			}
		}
		if !in {
			for _, c := range e.classes {
				if posixClasses[c](r) {
					in = true
					break
				}
			}
		}
		return in != e.neg
	}
	return false
}

// MatchWhole reports whether the whole of s matches the pattern.
func (p *Pattern) MatchWhole(s []rune) bool {
	return matchAt(p.elems, s)
}

func matchAt(es []elem, s []rune) bool {
	for len(es) > 0 {
		if es[0].k == kStar {
			// collapse runs of stars
			for len(es) > 0 && es[0].k == kStar {
				es = es[1:]
			}
			if len(es) == 0 {
				return true
			}
			for i := 0; i <= len(s); i++ {
				if matchAt(es, s[i:]) {
					return true
				}
			}
			return false
		}
		if len(s) == 0 || !es[0].matches(s[0]) {
			return false
		}
		es, s = es[1:], s[1:]
	}
	return len(s) == 0
}

// Mode bits (mirroring the documented meaning, not go.sh's constants).
const (
	Smallest = 1
	Largest  = 2
	Suffix   = 4
	Prefix   = 8
)

// Remove returns the portion of s matched in the given mode by any of the
// patterns, and whether there is one.  mode must contain exactly one of
// Prefix/Suffix; Largest wins over Smallest, Largest is the default.
func Remove(ps []*Pattern, mode int, s string) (string, bool) {
	rs := []rune(s)
	small := mode&Smallest != 0 && mode&Largest == 0
	n := len(rs)
	try := func(i int) (string, bool) {
		var part []rune
		if mode&Prefix != 0 {
			part = rs[:i]
		} else {
			part = rs[n-i:]
		}
		for _, p := range ps {
			if p.MatchWhole(part) {
				return string(part), true
			}
		}
		return "", false
	}
	if small {
		for i := 0; i <= n; i++ {
			if m, ok := try(i); ok {
				return m, true
			}
		}
	} else {
		for i := n; i >= 0; i-- {
			if m, ok := try(i); ok {
				return m, true
			}
		}
	}
	return "", false
}

// AnyWhole reports whether some pattern matches the whole of s.
func AnyWhole(ps []*Pattern, s string) bool {
	rs := []rune(s)
	for _, p := range ps {
		if p.MatchWhole(rs) {
			return true
		}
	}
	return false
}
