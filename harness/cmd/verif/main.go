// Command verif is the driver, worker and replay tool of the go.sh monitors.
package main

import (
	"flag"
	"fmt"
	"os"
	"strconv"
	"strings"
	"time"

	"verif/core"
	"verif/props"
)

func main() {
	if len(os.Args) < 2 {
		fmt.Fprintln(os.Stderr, "usage: verif run <ID> <quick|thorough> | replay <file> | list")
		os.Exit(2)
	}
	switch os.Args[1] {
	case "list":
		for _, id := range core.IDs() {
			fmt.Println(id)
		}
	case "run":
		if len(os.Args) < 4 {
			fmt.Fprintln(os.Stderr, "usage: verif run <ID> <quick|thorough>")
			os.Exit(2)
		}
		dir := os.Getenv("VERIF_DIR")
		if dir == "" {
			dir = "/verif"
		}
		os.Exit(core.DriverMain(os.Args[2], os.Args[3], dir))
	case "replay":
		os.Exit(core.ReplayMain(os.Args[2]))
	case "worker":
		fs := flag.NewFlagSet("worker", flag.ExitOnError)
		prop := fs.String("prop", "", "")
		tier := fs.String("tier", "quick", "")
		seed := fs.Int64("seed", 1, "")
		shard := fs.Int("shard", 0, "")
		nshards := fs.Int("nshards", 1, "")
		out := fs.String("out", "", "")
		slot := fs.String("slot", "", "")
		skip := fs.String("skip", "", "")
		fs.Parse(os.Args[2:])
		var sk []int64
		if *skip != "" {
			for _, s := range strings.Split(*skip, ",") {
				v, _ := strconv.ParseInt(s, 10, 64)
				sk = append(sk, v)
			}
		}
		os.Exit(core.WorkerMain(*prop, *tier, *seed, *shard, *nshards, sk, *out, *slot))
	case "environ-probe":
		// child of a C20 case: reports what NewExecEnv imports from this process's environment
		props.C20EnvironProbe()
	case "solo":
		fs := flag.NewFlagSet("solo", flag.ExitOnError)
		prop := fs.String("prop", "", "")
		tier := fs.String("tier", "quick", "")
		seed := fs.Int64("seed", 1, "")
		cf := fs.String("case", "", "")
		out := fs.String("out", "", "")
		wd := fs.Duration("wd", 15*time.Second, "")
		fs.Parse(os.Args[2:])
		os.Exit(core.SoloMain(*prop, *tier, *seed, *cf, *out, *wd))
	default:
		fmt.Fprintln(os.Stderr, "unknown subcommand", os.Args[1])
		os.Exit(2)
	}
}
