package main

import (
	"fmt"
	"os"
	"os/exec"
	"strings"
	"sync"

	"verif/recog"
)

// recogMain compares the recogniser with `dash -n` and `bash -n` on all strings
// of <=3 tokens (no newline inside: the shells judge the whole input, the
// recogniser only the first complete command).
func recogMain() {
	vocab := []recog.Tok{
		{K: recog.Word, Text: "a", Plain: true}, {K: recog.Word, Text: "b=1", Plain: true}, {K: recog.Word, Text: "7", Plain: true},
	}
	for _, w := range []string{"!", "{", "}", "for", "case", "esac", "in", "if", "elif", "then", "else", "fi", "while", "until", "do", "done"} {
		vocab = append(vocab, recog.Tok{K: recog.Word, Text: w, Plain: true})
	}
	for _, o := range []string{"&", "&&", "(", ")", ";", ";;", "|", "||", "<", ">", ">>", "<&", ">|"} {
		vocab = append(vocab, recog.Tok{K: recog.Op, Text: o})
	}
	type job struct {
		toks []recog.Tok
		src  string
	}
	jobs := make(chan job, 1000)
	var mu sync.Mutex
	n, agree, shellsDiffer := 0, 0, 0
	dis := map[string]int{}
	var wg sync.WaitGroup
	syn := func(sh, src string) bool {
		cmd := exec.Command(sh, "-n", "-c", src)
		cmd.Env = append(os.Environ(), "LC_ALL=C")
		return cmd.Run() == nil
	}
	for w := 0; w < 16; w++ {
		wg.Add(1)
		go func() {
			defer wg.Done()
			for j := range jobs {
				v, _ := recog.Recognise(j.toks)
				d, b := syn("dash", j.src), syn("bash", j.src)
				mu.Lock()
				n++
				switch {
				case v == recog.Unsure:
				case d != b:
					shellsDiffer++
				case (v == recog.Valid) == d:
					agree++
				default:
					k := fmt.Sprintf("%-24q recogniser=%s shells-accept=%v", j.src, v, d)
					if len(dis) < 60 {
						dis[k]++
					}
				}
				mu.Unlock()
			}
		}()
	}
	var gen func(prefix []recog.Tok, depth int)
	gen = func(prefix []recog.Tok, depth int) {
		if len(prefix) > 0 {
			var parts []string
			for _, t := range prefix {
				parts = append(parts, t.Text)
			}
			jobs <- job{append([]recog.Tok(nil), prefix...), strings.Join(parts, " ")}
		}
		if depth == 0 {
			return
		}
		for _, t := range vocab {
			gen(append(prefix, t), depth-1)
		}
	}
	depth := 3
	if len(os.Args) > 2 && os.Args[2] == "4" {
		depth = 4
	}
	gen(nil, depth)
	close(jobs)
	wg.Wait()
	for k := range dis {
		fmt.Println("DISAGREE", k)
	}
	fmt.Printf("strings=%d agree=%d disagree=%d shells-differ=%d\n", n, agree, len(dis), shellsDiffer)
}
