// Command devshells is a development-time validation of the reference models
// against bash and dash (never used by a registered check).
package main

import (
	"fmt"
	"os"
	"os/exec"
	"strings"

	"verif/refexp"
)

func shq(s string) string { return "'" + strings.ReplaceAll(s, "'", `'\''`) + "'" }

func script(c *refexp.Case) string {
	var b strings.Builder
	b.WriteString("set --")
	for _, a := range c.Args {
		b.WriteString(" " + shq(a))
	}
	b.WriteString("\nunset v y z\n")
	if c.Set {
		b.WriteString("v=" + shq(c.Value) + "\n")
	}
	b.WriteString("o=" + shq(c.Other) + "\n")
	b.WriteString("p() { printf '%s' \"$#\"; for a; do printf '<%s>' \"$a\"; done; }\n")
	if c.IFSSet {
		b.WriteString("IFS=" + shq(c.IFS) + "\n")
	} else {
		b.WriteString("unset IFS\n")
	}
	if c.NoUnset {
		b.WriteString("set -u\n")
	}
	b.WriteString("( p " + c.Source() + "; printf '|v=%s|y=%s|z=%s' \"${v-UNSET}\" \"${y-UNSET}\" \"${z-UNSET}\" ) 2>/dev/null || printf 'ERR'\n")
	return b.String()
}

func run(sh, sc string) string {
	cmd := exec.Command(sh, "-c", sc, "sh")
	cmd.Env = append(os.Environ(), "LC_ALL=C.UTF-8")
	out, _ := cmd.Output()
	return string(out)
}

func model(c *refexp.Case) string {
	o := refexp.Eval(c, map[string]string{"o": c.Other})
	if o.Skip != "" {
		return "SKIP:" + o.Skip
	}
	if o.Err != "" {
		return "ERR"
	}
	var b strings.Builder
	fmt.Fprintf(&b, "%d", len(o.Fields))
	for _, f := range o.Fields {
		b.WriteString("<" + f + ">")
	}
	g := func(n string) string {
		if v, ok := o.Store[n]; ok {
			return v
		}
		return "UNSET"
	}
	fmt.Fprintf(&b, "|v=%s|y=%s|z=%s", g("v"), g("y"), g("z"))
	return b.String()
}

func main() {
	if len(os.Args) > 1 && os.Args[1] == "recog" {
		recogMain()
		return
	}
	n, dis, agree, shellsDiffer := 0, 0, 0, 0
	seen := map[string]int{}
	refexp.Product(func(c refexp.Case) {
		if c.Param == "-" || c.Param == "$" || c.Param == "0" {
			return
		}
		n++
		if len(os.Args) > 1 && n%7 != 0 {
			return
		}
		c.Name0 = "sh"
		sc := script(&c)
		bo, do := run("bash", sc), run("dash", sc)
		m := model(&c)
		if strings.HasPrefix(m, "SKIP:") {
			return
		}
		if bo != do {
			shellsDiffer++
			return
		}
		if m != bo {
			dis++
			k := fmt.Sprintf("op=%s dq=%v nu=%v", c.Op, c.DQ, c.NoUnset)
			if seen[k] < 3 {
				fmt.Printf("DISAGREE %s v=%v/%q args=%q ifs=%v/%q nounset=%v\n   model=%s\n   shells=%s\n", c.Source(), c.Set, c.Value, c.Args, c.IFSSet, c.IFS, c.NoUnset, m, bo)
			}
			seen[k]++
		} else {
			agree++
		}
	})
	fmt.Printf("cases=%d agree=%d disagree=%d shells-differ=%d\n", n, agree, dis, shellsDiffer)
}
