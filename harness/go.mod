module verif

go 1.23

require github.com/hattya/go.sh v0.0.0

replace github.com/hattya/go.sh => /repo
