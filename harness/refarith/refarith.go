// Package refarith is a reference evaluator for shell arithmetic (C expression
// semantics on int64) over explicit expression trees, plus the renderer that
// turns a tree into source text with minimal (and optional redundant)
// parentheses.  It shares nothing with go.sh's yacc grammar: trees are
// evaluated by a recursive walk with explicit short-circuiting.
package refarith

import (
	"math"
	"math/rand/v2"
	"strconv"
	"strings"
)

type Kind int

const (
	Num     Kind = iota // literal text in Lit
	Var                 // Name
	Unary               // Op in + - ~ !
	PreInc              // Op ++ or --, operand L
	PostInc             // Op ++ or --, operand L
	Binary              // Op, L, R
	Cond                // C ? L : R
	Assign              // L Op R   (Op "=", "+=", ...)
	Paren               // ( L )  explicit source-level parentheses
)

type Expr struct {
	K    Kind   `json:"k"`
	Op   string `json:"op,omitempty"`
	Lit  string `json:"lit,omitempty"`
	Name string `json:"name,omitempty"`
	L    *Expr  `json:"l,omitempty"`
	R    *Expr  `json:"r,omitempty"`
	C    *Expr  `json:"c,omitempty"`
}

// Fault kinds.
const (
	NoFault      = ""
	DivZero      = "division by zero"
	NegShift     = "negative shift count"
	BadConst     = "malformed constant"
	BadValue     = "non-numeric variable value"
	NotLvalue    = "assignment to a non-lvalue"
	Undefined    = "undefined in C (not judged)"
	GrayConstant = "gray zone (not judged)"
)

// Store maps variable names to values; absent = unset.
type Store map[string]string

func (s Store) Clone() Store {
	t := Store{}
	for k, v := range s {
		t[k] = v
	}
	return t
}

// Outcome of the reference evaluation.
type Outcome struct {
	Value         int64
	Fault         string // first fault, or ""
	NotJudge      string // non-empty: the case is outside what C defines / a gray zone
	Store         Store  // store at the end, or at the first fault
	Skipped       bool   // some operand was skipped by && || ?:
	SkippedEffect bool   // a skipped operand contained an assignment or a faulting construct
}

type evaluator struct {
	st       Store
	fault    string
	notJudge string
	skipped  bool
	skipEff  bool
}

var binPrec = map[string]int{
	"*": 10, "/": 10, "%": 10,
	"+": 9, "-": 9,
	"<<": 8, ">>": 8,
	"<": 7, ">": 7, "<=": 7, ">=": 7,
	"==": 6, "!=": 6,
	"&": 5, "^": 4, "|": 3,
	"&&": 2, "||": 1,
}

var BinOps = []string{"*", "/", "%", "+", "-", "<<", ">>", "<", ">", "<=", ">=", "==", "!=", "&", "^", "|", "&&", "||"}
var AssignOps = []string{"=", "*=", "/=", "%=", "+=", "-=", "<<=", ">>=", "&=", "^=", "|="}
var UnaryOps = []string{"+", "-", "~", "!"}

// ParseConst parses a C integer constant the way the property reads it:
// decimal, 0-octal, 0x-hex, no sign, within int64.  ok=false: malformed;
// gray=true: beyond int64 (undefined) .
func ParseConst(s string) (v int64, ok bool, gray bool) {
	if s == "" {
		return 0, false, false
	}
	base := 10
	digits := s
	switch {
	case len(s) > 2 && (s[:2] == "0x" || s[:2] == "0X"):
		base, digits = 16, s[2:]
	case len(s) > 1 && s[0] == '0':
		base, digits = 8, s[1:]
	case s == "0x" || s == "0X":
		return 0, false, false
	}
	for _, r := range digits {
		var d int
		switch {
		case '0' <= r && r <= '9':
			d = int(r - '0')
		case 'a' <= r && r <= 'f':
			d = int(r-'a') + 10
		case 'A' <= r && r <= 'F':
			d = int(r-'A') + 10
		default:
			return 0, false, false
		}
		if d >= base {
			return 0, false, false
		}
	}
	u, err := strconv.ParseUint(digits, base, 64)
	if err != nil || u > math.MaxInt64 {
		return 0, true, true
	}
	return int64(u), true, false
}

// parseValue interprets a variable's value.
func parseValue(s string) (v int64, ok bool, gray bool) {
	if s == "" {
		return 0, true, false
	}
	t := s
	neg := false
	if t[0] == '+' || t[0] == '-' {
		neg = t[0] == '-'
		t = t[1:]
	}
	// surrounding blanks: gray (shells accept them, go.sh does not)
	if strings.TrimSpace(s) != s {
		return 0, false, true
	}
	// forms Go's base-0 ParseInt accepts but which are not decimal, octal or
	// hexadecimal constants: non-numeric (bash and dash reject them)
	lt := strings.ToLower(t)
	if strings.HasPrefix(lt, "0b") || strings.HasPrefix(lt, "0o") || strings.Contains(t, "_") {
		return 0, false, false
	}
	u, ok, gray := ParseConst(t)
	if !ok || gray {
		if ok && gray && neg && t == "9223372036854775808" {
			return math.MinInt64, true, false
		}
		return 0, ok, gray
	}
	if neg {
		return -u, true, false
	}
	return u, true, false
}

func (ev *evaluator) failed() bool { return ev.fault != "" || ev.notJudge != "" }

func (ev *evaluator) setFault(f string) {
	if !ev.failed() {
		ev.fault = f
	}
}

func (ev *evaluator) read(name string) int64 {
	v, set := ev.st[name]
	if !set {
		return 0
	}
	n, ok, gray := parseValue(v)
	if gray {
		if ev.fault == "" && ev.notJudge == "" {
			ev.notJudge = GrayConstant
		}
		return 0
	}
	if !ok {
		ev.setFault(BadValue)
		return 0
	}
	return n
}

func (ev *evaluator) write(name string, v int64) {
	if ev.failed() {
		return
	}
	ev.st[name] = strconv.FormatInt(v, 10)
}

// lvalue returns the variable a (possibly parenthesised) expression designates.
func lvalue(e *Expr) (string, bool) {
	for e.K == Paren {
		e = e.L
	}
	if e.K == Var {
		return e.Name, true
	}
	return "", false
}

func b2i(b bool) int64 {
	if b {
		return 1
	}
	return 0
}

func (ev *evaluator) binop(op string, l, r int64) int64 {
	switch op {
	case "*":
		return l * r
	case "/", "%":
		if r == 0 {
			ev.setFault(DivZero)
			return 0
		}
		if l == math.MinInt64 && r == -1 {
			if !ev.failed() {
				ev.notJudge = Undefined
			}
			return 0
		}
		if op == "/" {
			return l / r
		}
		return l % r
	case "+":
		return l + r
	case "-":
		return l - r
	case "<<", ">>":
		if r < 0 {
			ev.setFault(NegShift)
			return 0
		}
		if r >= 64 {
			if !ev.failed() {
				ev.notJudge = Undefined
			}
			return 0
		}
		if op == "<<" {
			return l << uint(r)
		}
		return l >> uint(r)
	case "<":
		return b2i(l < r)
	case ">":
		return b2i(l > r)
	case "<=":
		return b2i(l <= r)
	case ">=":
		return b2i(l >= r)
	case "==":
		return b2i(l == r)
	case "!=":
		return b2i(l != r)
	case "&":
		return l & r
	case "^":
		return l ^ r
	case "|":
		return l | r
	}
	panic("refarith: unknown operator " + op)
}

// hasEffect reports whether evaluating e could assign or fault.
func hasEffect(e *Expr) bool {
	if e == nil {
		return false
	}
	switch e.K {
	case PreInc, PostInc, Assign:
		return true
	case Num:
		_, ok, gray := ParseConst(e.Lit)
		return !ok || gray
	case Binary:
		if e.Op == "/" || e.Op == "%" || e.Op == "<<" || e.Op == ">>" {
			return true
		}
	case Var:
		return true // may hold a non-numeric value
	}
	return hasEffect(e.L) || hasEffect(e.R) || hasEffect(e.C)
}

// staticGray reports constructs inside a skipped operand that C rejects at
// translation time although they are never evaluated (malformed constant,
// assignment to a non-lvalue): the statement can be read either way.
func staticGray(e *Expr) bool {
	if e == nil {
		return false
	}
	switch e.K {
	case Num:
		_, ok, gray := ParseConst(e.Lit)
		if !ok || gray {
			return true
		}
	case PreInc, PostInc, Assign:
		if _, ok := lvalue(e.L); !ok {
			return true
		}
	}
	return staticGray(e.L) || staticGray(e.R) || staticGray(e.C)
}

func (ev *evaluator) skip(e *Expr) {
	ev.skipped = true
	if hasEffect(e) {
		ev.skipEff = true
	}
	if staticGray(e) && !ev.failed() {
		ev.notJudge = GrayConstant
	}
}

func (ev *evaluator) eval(e *Expr) int64 {
	if ev.failed() {
		// after the first fault nothing is evaluated any more
		return 0
	}
	switch e.K {
	case Num:
		v, ok, gray := ParseConst(e.Lit)
		if !ok {
			ev.setFault(BadConst)
			return 0
		}
		if gray {
			ev.notJudge = Undefined
			return 0
		}
		return v
	case Var:
		return ev.read(e.Name)
	case Paren:
		return ev.eval(e.L)
	case Unary:
		v := ev.eval(e.L)
		switch e.Op {
		case "+":
			return v
		case "-":
			return -v
		case "~":
			return ^v
		case "!":
			return b2i(v == 0)
		}
	case PreInc, PostInc:
		name, ok := lvalue(e.L)
		if !ok {
			// the operand is still evaluated by a left-to-right evaluator; its
			// faults come first
			ev.eval(e.L)
			ev.setFault(NotLvalue)
			return 0
		}
		old := ev.read(name)
		if ev.failed() {
			return 0
		}
		nv := old + 1
		if e.Op == "--" {
			nv = old - 1
		}
		ev.write(name, nv)
		if e.K == PreInc {
			return nv
		}
		return old
	case Binary:
		switch e.Op {
		case "&&":
			l := ev.eval(e.L)
			if ev.failed() {
				return 0
			}
			if l == 0 {
				ev.skip(e.R)
				return 0
			}
			return b2i(ev.eval(e.R) != 0)
		case "||":
			l := ev.eval(e.L)
			if ev.failed() {
				return 0
			}
			if l != 0 {
				ev.skip(e.R)
				return 1
			}
			return b2i(ev.eval(e.R) != 0)
		}
		l := ev.eval(e.L)
		r := ev.eval(e.R)
		if ev.failed() {
			return 0
		}
		return ev.binop(e.Op, l, r)
	case Cond:
		c := ev.eval(e.C)
		if ev.failed() {
			return 0
		}
		if c != 0 {
			ev.skip(e.R)
			return ev.eval(e.L)
		}
		ev.skip(e.L)
		return ev.eval(e.R)
	case Assign:
		name, ok := lvalue(e.L)
		if !ok {
			ev.eval(e.L)
			ev.eval(e.R)
			ev.setFault(NotLvalue)
			return 0
		}
		var v int64
		if e.Op == "=" {
			v = ev.eval(e.R)
		} else {
			// C: E1 op= E2 reads E1 once; the right operand is evaluated
			// (unsequenced relative to the read - excluded by the UB analysis when it matters)
			l := ev.read(name)
			r := ev.eval(e.R)
			if ev.failed() {
				return 0
			}
			v = ev.binop(e.Op[:len(e.Op)-1], l, r)
		}
		if ev.failed() {
			return 0
		}
		ev.write(name, v)
		return v
	}
	panic("refarith: bad node")
}

// Eval evaluates e on a copy of st.
func Eval(e *Expr, st Store) Outcome {
	ev := &evaluator{st: st.Clone()}
	v := ev.eval(e)
	o := Outcome{Value: v, Fault: ev.fault, NotJudge: ev.notJudge, Store: ev.st, Skipped: ev.skipped, SkippedEffect: ev.skipEff}
	if o.NotJudge == "" && Unsequenced(e) {
		o.NotJudge = Undefined
	}
	return o
}

// ---- undefined-behaviour analysis: modified and otherwise accessed between sequence points

type access struct{ mod, acc map[string]bool }

func newAccess() access { return access{map[string]bool{}, map[string]bool{}} }

func (a access) union(b access) {
	for k := range b.mod {
		a.mod[k] = true
	}
	for k := range b.acc {
		a.acc[k] = true
	}
}

func conflict(a, b access) bool {
	for k := range a.mod {
		if b.mod[k] || b.acc[k] {
			return true
		}
	}
	for k := range b.mod {
		if a.acc[k] {
			return true
		}
	}
	return false
}

// Unsequenced reports whether e modifies a variable and also accesses it
// elsewhere without an intervening sequence point.
func Unsequenced(e *Expr) bool {
	bad := false
	var walk func(e *Expr) access
	walk = func(e *Expr) access {
		a := newAccess()
		if e == nil {
			return a
		}
		switch e.K {
		case Num:
		case Var:
			a.acc[e.Name] = true
		case Paren, Unary:
			return walk(e.L)
		case PreInc, PostInc:
			if n, ok := lvalue(e.L); ok {
				a.mod[n] = true
			} else {
				return walk(e.L)
			}
		case Binary:
			l, r := walk(e.L), walk(e.R)
			if e.Op != "&&" && e.Op != "||" && conflict(l, r) {
				bad = true
			}
			a.union(l)
			a.union(r)
		case Cond:
			c, l, r := walk(e.C), walk(e.L), walk(e.R)
			a.union(c)
			a.union(l)
			a.union(r)
		case Assign:
			r := walk(e.R)
			if n, ok := lvalue(e.L); ok {
				if r.mod[n] {
					bad = true
				}
				a.union(r)
				a.mod[n] = true
			} else {
				l := walk(e.L)
				if conflict(l, r) {
					bad = true
				}
				a.union(l)
				a.union(r)
			}
		}
		return a
	}
	walk(e)
	return bad
}

// ---- rendering

func prec(e *Expr) int {
	switch e.K {
	case Num, Var, Paren:
		return 14
	case PostInc:
		return 13
	case Unary, PreInc:
		return 12
	case Binary:
		return binPrec[e.Op]
	case Cond:
		return 0
	case Assign:
		return -1
	}
	return 14
}

// Tokens renders e as a token list with exactly the parentheses precedence and
// associativity require (redundant ones come from explicit Paren nodes).
func Tokens(e *Expr) []string {
	var out []string
	var emit func(e *Expr, min int)
	wrap := func(e *Expr, need bool) {
		if need {
			out = append(out, "(")
			emit(e, -1)
			out = append(out, ")")
		} else {
			emit(e, -1)
		}
	}
	emit = func(e *Expr, _ int) {
		switch e.K {
		case Num:
			out = append(out, e.Lit)
		case Var:
			out = append(out, e.Name)
		case Paren:
			out = append(out, "(")
			emit(e.L, -1)
			out = append(out, ")")
		case Unary:
			out = append(out, e.Op)
			wrap(e.L, prec(e.L) < 12)
		case PreInc:
			out = append(out, e.Op)
			wrap(e.L, prec(e.L) < 12)
		case PostInc:
			wrap(e.L, prec(e.L) < 13)
			out = append(out, e.Op)
		case Binary:
			p := binPrec[e.Op]
			wrap(e.L, prec(e.L) < p) // left associative: equal precedence on the left needs none
			out = append(out, e.Op)
			wrap(e.R, prec(e.R) <= p)
		case Cond:
			// lor_expr ? expr : cond_expr
			wrap(e.C, prec(e.C) < 1)
			out = append(out, "?")
			wrap(e.L, false)
			out = append(out, ":")
			wrap(e.R, prec(e.R) < 0)
		case Assign:
			// unary_expr assign_op expr
			wrap(e.L, prec(e.L) < 12)
			out = append(out, e.Op)
			wrap(e.R, false)
		}
	}
	emit(e, -1)
	return out
}

func isOpTok(t string) bool {
	if t == "(" || t == ")" {
		return false
	}
	c := t[0]
	return !(c == '_' || ('0' <= c && c <= '9') || ('a' <= c && c <= 'z') || ('A' <= c && c <= 'Z'))
}

// Render joins tokens with random blanks; two adjacent operator tokens are
// always separated (so "+ +" never becomes "++").  compact=true uses no blanks
// except the mandatory ones.
func Render(toks []string, r *rand.Rand, compact bool) string {
	var b strings.Builder
	blanks := []string{" ", "  ", "\t", " \n ", "\n"}
	for i, t := range toks {
		if i > 0 {
			must := isOpTok(toks[i-1]) && isOpTok(t)
			switch {
			case must:
				b.WriteString(" ")
			case compact || r == nil:
			case r.IntN(3) > 0:
				b.WriteString(blanks[r.IntN(len(blanks))])
			}
		}
		b.WriteString(t)
	}
	return b.String()
}

// RenderSafe renders so that the text survives removal of all blanks (used for
// the $((...)) path, where go.sh's Expand concatenates the blank-separated
// pieces): a unary/prefix operator that follows another operator token is put
// in parentheses.
func RenderSafe(e *Expr) string {
	toks := Tokens(e)
	var out []string
	// wrap sequences  op op...  by inserting parentheses is not local; instead
	// reject at the caller when two operator tokens are adjacent.
	for i, t := range toks {
		if i > 0 && isOpTok(toks[i-1]) && isOpTok(t) {
			return ""
		}
		out = append(out, t)
	}
	return strings.Join(out, "")
}
