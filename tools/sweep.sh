#!/bin/bash
# tools/sweep.sh <tier> <seed>...   run every check at the given seeds; one summary line per run (silence sweep)
# evidence is written to a scratch directory so that the committed evidence files are not touched
set -u
V="$(cd "$(dirname "$0")/.." && pwd)"
TIER="$1"; shift
OUT=$(mktemp -d "${TMPDIR:-/tmp}/verif-sweep-XXXXXX")
trap 'rm -rf "$OUT"' EXIT
for S in "$@"; do
  for P in C01 C02 C03 C04 C05 C06 C07 C08 C09 C10 C11 C12 C13 C14 C15 C16 C17 C18 C19 C20; do
    out=$(cd "$V" && VERIF_SEED=$S VERIF_OUT="$OUT" ./check $P "$TIER" 2>/dev/null); rc=$?
    echo "rc=$rc $(echo "$out" | grep -v '^KNOWN' | tail -1 | cut -c1-170)"
    echo "$out" | grep '^VIOLATION\|^INCONCLUSIVE' | head -3
  done
done
