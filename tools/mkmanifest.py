#!/usr/bin/env python3
"""Regenerates /verif/MANIFEST.json and MANIFEST.hooks from tools/checks.json."""
import json, subprocess, os
V = os.path.dirname(os.path.dirname(os.path.abspath(__file__)))
props = [json.loads(l) for l in open(os.path.join(V, 'properties.jsonl'))]
checks = json.load(open(os.path.join(V, 'tools', 'checks.json')))
hook_commits = [l.split()[0] for l in open(os.path.join(V, 'MANIFEST.hooks')) if l.strip() and not l.startswith('#')]
m = {
    "version": 1,
    "setup_cmd": "./check build",
    "hooks": {
        "guard": "verif",
        "enable": "go build -tags verif in /verif/harness (go.mod: replace github.com/hattya/go.sh => /repo); ./check does this on every invocation",
        "baseline_off_cmd": "cd /repo && GOFLAGS=-mod=mod GOPROXY=off GOSUMDB=off GOTOOLCHAIN=local go test -vet=off -count=1 ./...",
        "source_commits": hook_commits,
        "add_only": True,
    },
    "engines": [
        {"name": "verif", "path": "harness/cmd/verif", "serves_properties": sorted(checks.keys()),
         "kind_free_text": "Go driver + isolated worker processes executing the real go.sh packages (built from /repo with -tags verif) under generated workloads; oracles: reference models, generator-known expectations, metamorphic self-comparison, fault injectors, schedule controller over the verif hooks, Go race detector"}
    ],
    "checks": [],
    "not_applicable": [],
    "notes": "All checks: ./check <ID> <quick|thorough>; exit 0 held, 1 violation (VIOLATION lines), 2 inconclusive/build failure. VERIF_SEED selects the random case lists. Known findings: known_findings.jsonl.",
}
for p in props:
    pid = p['id']
    if pid in checks:
        c = checks[pid]
        m['checks'].append({
            "property_id": pid,
            "quick_cmd": f"./check {pid} quick",
            "thorough_cmd": f"./check {pid} thorough",
            "evidence_file": f"/verif/evidence/{pid}.json",
            "replay_cmd_template": "./check replay {path}",
            "engine": "verif",
            "level_claimed": {"category": c['level'], "text": c['text'], "design_ref": c.get('design_ref', f"DESIGN.md §4 {pid}")},
            "level_note": c['note'],
            "technique": c['technique'],
        })
    else:
        m['not_applicable'].append({"property_id": pid, "reason": "check not built yet (implementation round in progress); runtime monitoring applies, see DESIGN.md §4"})
json.dump(m, open(os.path.join(V, 'MANIFEST.json'), 'w'), indent=1)
print("checks:", len(m['checks']), "not_applicable:", len(m['not_applicable']))
