#!/bin/bash
# tools/seeddiag.sh <seed ids...>   run only the quick check of the property each seeded change was written against
set -u
export GOFLAGS=-mod=mod GOPROXY=off GOSUMDB=off GOTOOLCHAIN=local
V="$(cd "$(dirname "$0")/.." && pwd)"
for S in "$@"; do
  P=${S%%-*}
  WT=$(mktemp -d /tmp/sd-XXXXXX); rmdir "$WT"
  git -C /repo worktree add -q "$WT" HEAD || { echo "$S worktree-failed"; continue; }
  if ! (cd "$WT" && git apply "$V/seeded/$S/patch.diff" 2>/dev/null); then echo "$S PATCH-DOES-NOT-APPLY"; git -C /repo worktree remove --force "$WT"; continue; fi
  (cd "$WT" && go build ./... && go test -vet=off -count=1 ./... >/dev/null 2>&1) || echo "$S REPO-TESTS-FAIL"
  mkdir -p "$WT/seeddemo" && cp "$V/seeded/$S/demo_test.go" "$WT/seeddemo/" && (cd "$WT" && go test -count=1 ./seeddemo >/dev/null 2>&1 && echo "$S DEMO-DOES-NOT-FAIL"); rm -rf "$WT/seeddemo"
  out=$(cd "$V" && VERIF_REPO="$WT" ./check "$P" quick 2>/dev/null | grep -v '^VIOLATION\|^KNOWN' | tail -1)
  echo "$S $P $(echo "$out" | grep -o 'violations=[0-9]*\|INCONCLUSIVE[^:]*' | head -1)"
  git -C /repo worktree remove --force "$WT" >/dev/null 2>&1; rm -rf "$WT" "$V"/bin/alt-*
done
