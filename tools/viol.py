#!/usr/bin/env python3
"""Compact summary of a VERIF_DUMP violations file."""
import json,collections,sys
v=json.load(open(sys.argv[1]))
w=int(sys.argv[2]) if len(sys.argv)>2 else 110
n=int(sys.argv[3]) if len(sys.argv)>3 else 2
c=collections.Counter(); ex={}
for x in v:
    k=(x['class'],str(x['observed'])[5:70] if x['class'] in('rejected',) else '')
    c[k]+=1
    ex.setdefault(k,[]).append(x)
for k,cnt in c.most_common(25):
    print(k,cnt)
    for x in ex[k][:n]:
        print('    key:',x['key'][:w].replace('\n','⏎'))
        if x['class'] not in('rejected','crash'):
            print('    exp:',str(x['expected'])[:w*2])
            print('    obs:',str(x['observed'])[:w*2])
if len(sys.argv)>4:
    xs=sorted([x for x in v if x['class'] in sys.argv[4].split(',')],key=lambda x:len(x['key']))
    seen=set()
    for x in xs:
        o=str(x['observed'])
        if o in seen: continue
        seen.add(o)
        print(repr(x['key'])); print('   =>',o[:200])
        if len(seen)>=int(sys.argv[5]) : break
