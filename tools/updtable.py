#!/usr/bin/env python3
# tools/updtable.py — replace the seeded-change table of DESIGN.md §12 with the output of tools/mkseedtable.py
import subprocess, os
V = os.path.dirname(os.path.dirname(os.path.abspath(__file__)))
tab = subprocess.run(["python3", os.path.join(V, "tools", "mkseedtable.py")], capture_output=True, text=True, check=True).stdout
p = os.path.join(V, "DESIGN.md")
s = open(p).read()
h = "| change | breaks | what was changed (needs to manifest) |"
i = s.index(h)
j = s.index("\n\n", i)
open(p, "w").write(s[:i] + tab.rstrip("\n") + s[j:])
print("rows:", tab.count("\n") - 2)
