#!/bin/bash
# tools/seedmatrix.sh [seed ids...]   run the related quick checks against every stored seeded change; prints one line per (seed, check)
set -u
export GOFLAGS=-mod=mod GOPROXY=off GOSUMDB=off GOTOOLCHAIN=local
V="$(cd "$(dirname "$0")/.." && pwd)"
PARSER="C01 C02 C03 C04 C06 C07 C08 C09 C10 C17"
PRINTER="C05 C18 C19"
INTERP="C11 C12 C13 C14 C15 C16 C19 C20"
SEEDS="${*:-$(ls "$V/seeded")}"
for S in $SEEDS; do
  P=${S%%-*}
  case $P in C05|C18) CH="$PRINTER";; C11|C12|C13|C14|C15|C16|C19|C20) CH="$INTERP";; *) CH="$PARSER";; esac
  case " $CH " in *" $P "*) ;; *) CH="$P $CH";; esac
  WT=$(mktemp -d /tmp/sm-XXXXXX); rmdir "$WT"
  git -C /repo worktree add -q "$WT" HEAD || { echo "$S worktree-failed"; continue; }
  if ! (cd "$WT" && git apply "$V/seeded/$S/patch.diff" 2>/dev/null); then echo "$S PATCH-DOES-NOT-APPLY"; git -C /repo worktree remove --force "$WT"; continue; fi
  (cd "$WT" && go build ./... && go test -vet=off -count=1 ./... >/dev/null 2>&1) || echo "$S REPO-TESTS-FAIL"
  mkdir -p "$WT/seeddemo" && cp "$V/seeded/$S/demo_test.go" "$WT/seeddemo/" && (cd "$WT" && go test -count=1 ./seeddemo >/dev/null 2>&1 && echo "$S DEMO-DOES-NOT-FAIL"); rm -rf "$WT/seeddemo"
  for C in $CH; do
    out=$(cd "$V" && VERIF_REPO="$WT" ./check "$C" quick 2>/dev/null | grep -v '^VIOLATION\|^KNOWN' | tail -1); rc=$?
    res=$(echo "$out" | grep -o 'violations=[0-9]*\|INCONCLUSIVE[^:]*' | head -1)
    echo "$S $C $res"
  done
  git -C /repo worktree remove --force "$WT" >/dev/null 2>&1; rm -rf "$WT" "$V/bin/alt-$(echo "$WT" | sha1sum | cut -c1-10)"
done
