#!/bin/bash
# tools/seedcheck.sh <seed-dir> <PROP> [checks...]   validate a seeded change and run checks against it
#   <seed-dir> holds patch.diff and seeddemo/demo_test.go (as produced by a sub-agent or stored in /verif/seeded/<id>)
set -u
export GOFLAGS=-mod=mod GOPROXY=off GOSUMDB=off GOTOOLCHAIN=local
SD="$(cd "$1" && pwd)"; PROP="$2"; shift 2
CHECKS="${*:-$PROP}"
WT=$(mktemp -d /tmp/sv-XXXXXX)
trap 'git -C /repo worktree remove --force "$WT" >/dev/null 2>&1; rm -rf "$WT"; rm -rf "/verif/bin/alt-$(echo "$WT" | sha1sum | cut -c1-10)"' EXIT
rmdir "$WT"; git -C /repo worktree add -q "$WT" HEAD || exit 3
mkdir -p "$WT/seeddemo"; cp "$SD"/demo_test.go "$WT/seeddemo/" 2>/dev/null || cp "$SD"/seeddemo/*.go "$WT/seeddemo/" || { echo "no demo"; exit 3; }
echo "== demo WITHOUT the change (must pass)"
(cd "$WT" && go test -count=1 ./seeddemo 2>&1 | tail -3); A=${PIPESTATUS[0]}
(cd "$WT" && git apply "$SD/patch.diff") || { echo "PATCH DOES NOT APPLY"; exit 3; }
echo "== build + repo tests WITH the change (must pass)"
(cd "$WT" && go build ./... && go build -tags verif ./... && go test -vet=off -count=1 $(go list ./... | grep -v seeddemo) 2>&1 | grep -v '^ok' ; echo "tests rc=${PIPESTATUS[0]}")
echo "== demo WITH the change (must fail)"
(cd "$WT" && go test -count=1 ./seeddemo 2>&1 | tail -4)
rm -rf "$WT/seeddemo"
for C in $CHECKS; do
  echo "== check $C against the change"
  (cd /verif && VERIF_REPO="$WT" ./check "$C" quick 2>/dev/null | grep -v '^VIOLATION' | tail -2; echo "rc=${PIPESTATUS[0]}")
done
