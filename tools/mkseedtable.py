#!/usr/bin/env python3
# tools/mkseedtable.py  — markdown table "seeded change x quick checks that fire" from seeded/*/meta.json and seeded/matrix.txt
# matrix.txt holds the lines printed by tools/seedmatrix.sh ("<seed> <check> violations=<n>" / "<seed> <check> INCONCLUSIVE..."); later lines win.
import json, glob, os, re, sys
V = os.path.dirname(os.path.dirname(os.path.abspath(__file__)))
res = {}
for l in open(os.path.join(V, "seeded", "matrix.txt")):
    m = re.match(r'^(C\d+-\w+) (C\d+) (?:violations=(\d+)|(INCONCLUSIVE))', l)
    if m:
        res.setdefault(m.group(1), {})[m.group(2)] = int(m.group(3)) if m.group(3) is not None else "inconclusive"
print("| change | breaks | what was changed (needs to manifest) | quick checks that report a violation (count) | silent |")
print("|---|---|---|---|---|")
for d in sorted(glob.glob(os.path.join(V, "seeded", "C*"))):
    if not os.path.isdir(d):
        continue
    m = json.load(open(os.path.join(d, "meta.json")))
    r = res.get(m["id"], {})
    det = ", ".join(f"**{c}** ({v})" if c == m["breaks_property"] else f"{c} ({v})" for c, v in sorted(r.items()) if v and v != "inconclusive")
    inc = ", ".join(c + " (inconclusive)" for c, v in sorted(r.items()) if v == "inconclusive")
    sil = " ".join(c for c, v in sorted(r.items()) if v == 0)
    chg = m["change"].replace("|", "\\|").replace("\n", " ")
    need = m["needs_to_manifest"].replace("|", "\\|").replace("\n", " ")
    print(f"| {m['id']} | {m['breaks_property']} | {chg} — *needs:* {need} | {det or '—'}{('; ' + inc) if inc else ''} | {sil} |")
