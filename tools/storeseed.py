#!/usr/bin/env python3
# tools/storeseed.py <id> "<change>" "<needs to manifest>"  — copy a sub-agent's seeded change from /tmp/seed/<id> into /verif/seeded/<id>
import sys, os, json, shutil
sid, chg, needs = sys.argv[1:4]
src = f"/tmp/seed/{sid}"; dst = f"/verif/seeded/{sid}"
os.makedirs(dst, exist_ok=True)
shutil.copy(f"{src}/patch.diff", f"{dst}/patch.diff")
shutil.copy(f"{src}/seeddemo/demo_test.go", f"{dst}/demo_test.go")
json.dump({"id": sid, "breaks_property": sid.split('-')[0], "change": chg, "needs_to_manifest": needs,
 "origin": "written by a fresh sub-agent given only the property text and a private worktree of /repo",
 "validated": "tools/seedcheck.sh / tools/seedmatrix.sh: patch applies to /repo HEAD in a scratch worktree, go build + repo test suite pass with it, demo_test.go (as seeddemo/demo_test.go) passes without and fails with the change; quick checks run with VERIF_REPO pointing at the worktree",
 "detected_by": "see DESIGN.md section 12"}, open(f"{dst}/meta.json", "w"), indent=1, ensure_ascii=False)
print("stored", sid)
